#!/usr/bin/env python3
"""Tie of Model/FloatGen.v + FloatFlat.v + Spec/C11Float.v and of Model/X87.v + LDoubleGen.v + Spec/C11LDouble.v
(property C02, package fpgen) to the real chibicc.

run(src_dir, seed, n, verif_dir) generates n cases: typed expression trees over _Bool..unsigned long / float / double operands
(global objects set from raw bit patterns, and non-negative constants), focused one-operator boundary cases, and long double
trees (value, comparison, !, casts), and compares
  (1) the value the compiled program computes (raw bits of the result)      with the Coq spec  [feval / leval..]   -> impl_vs_spec
  (2) the instructions chibicc -S emits for `return <tree>;`                with the Coq model [flat_text / ltext] -> impl_vs_model
      (jump-level code: one line per instruction, jump targets as instruction positions)
  (3) the raw bits computed by the hardware (SSE NaN sign / payload incl.)  with the Coq machine [run_expr / run_l] -> impl_vs_model
The Coq side is evaluated by ONE coqc run on a generated Cases_fpgen.v (vm_compute)."""
import os, sys, re, json, random, struct, subprocess, tempfile, shutil

TYPES = ['bool', 'i8', 'u8', 'i16', 'u16', 'i32', 'u32', 'i64', 'u64', 'f32', 'f64']
ITYPES = TYPES[:9]
COQ_T = {'bool': '(TI IBool)', 'i8': '(TI I8)', 'u8': '(TI U8)', 'i16': '(TI I16)', 'u16': '(TI U16)', 'i32': '(TI I32)',
         'u32': '(TI U32)', 'i64': '(TI I64)', 'u64': '(TI U64)', 'f32': 'TF32', 'f64': 'TF64'}
COQ_I = {'bool': 'IBool', 'i8': 'I8', 'u8': 'U8', 'i16': 'I16', 'u16': 'U16', 'i32': 'I32', 'u32': 'U32', 'i64': 'I64', 'u64': 'U64'}
C_T = {'bool': '_Bool', 'i8': 'signed char', 'u8': 'unsigned char', 'i16': 'short', 'u16': 'unsigned short', 'i32': 'int',
       'u32': 'unsigned int', 'i64': 'long', 'u64': 'unsigned long', 'f32': 'float', 'f64': 'double', 'f80': 'long double'}
WIDTH = {'bool': 1, 'i8': 8, 'u8': 8, 'i16': 16, 'u16': 16, 'i32': 32, 'u32': 32, 'i64': 64, 'u64': 64}
SIGNED = {'i8', 'i16', 'i32', 'i64'}
def is_fp(t): return t in ('f32', 'f64')
def tmin(t): return -(1 << (WIDTH[t] - 1)) if t in SIGNED else 0
def tmax(t): return 1 if t == 'bool' else ((1 << (WIDTH[t] - 1)) - 1 if t in SIGNED else (1 << WIDTH[t]) - 1)
RANK = {'bool': 0, 'i8': 1, 'u8': 1, 'i16': 2, 'u16': 2, 'i32': 3, 'u32': 3, 'i64': 4, 'u64': 4}

def promote(t):
    if is_fp(t): return t
    return 'i32' if RANK[t] < 3 else t
def uac(a, b):
    """6.3.1.8 (used to steer generation only; the oracle is the Coq spec)"""
    if 'f64' in (a, b): return 'f64'
    if 'f32' in (a, b): return 'f32'
    a, b = promote(a), promote(b)
    if a == b: return a
    if (a in SIGNED) == (b in SIGNED): return a if RANK[a] >= RANK[b] else b
    s, u = (a, b) if a in SIGNED else (b, a)
    if RANK[u] >= RANK[s]: return u
    if tmax(s) >= tmax(u): return s
    return 'u' + s[1:]

ARITH = ['Add', 'Sub', 'Mul', 'Div']
INTONLY = ['Mod', 'BAnd', 'BOr', 'BXor']
SHIFT = ['Shl', 'Shr']
CMP = ['OEq', 'ONe', 'OLt', 'OLe', 'OGt', 'OGe']
LOGIC = ['LAnd', 'LOr']
C_OP = {'Add': '+', 'Sub': '-', 'Mul': '*', 'Div': '/', 'Mod': '%', 'BAnd': '&', 'BOr': '|', 'BXor': '^', 'Shl': '<<', 'Shr': '>>',
        'OEq': '==', 'ONe': '!=', 'OLt': '<', 'OLe': '<=', 'OGt': '>', 'OGe': '>=', 'LAnd': '&&', 'LOr': '||'}
C_UN = {'Neg': '-', 'BitNot': '~', 'LogNot': '!', 'Plus': '+'}

def ctype(e):
    k = e[0]
    if k == 'L': return e[1]
    if k == 'LS': return 'f32'
    if k == 'LD': return 'f64'
    if k == 'V': return e[1]
    if k == 'U': return 'i32' if e[1] == 'LogNot' else promote(ctype(e[2]))
    if k == 'B':
        o = e[1]
        if o in ARITH or o in INTONLY: return uac(ctype(e[2]), ctype(e[3]))
        if o in SHIFT: return promote(ctype(e[2]))
        return 'i32'
    if k == 'C': return e[1]
    if k == 'Q': return uac(ctype(e[2]), ctype(e[3]))
    if k == 'M': return ctype(e[2])
    raise ValueError(k)

# ---------- boundary pools (raw bit patterns) ----------
F32_POOL = [0x00000000, 0x80000000, 0x00000001, 0x007fffff, 0x00800000, 0x80000001, 0x3f800000, 0xbf800000, 0x40000000, 0x3f000000,
            0x40200000, 0xbfc00000, 0x40400000, 0x4b800000, 0x4b800001, 0x4b7fffff, 0x7f7fffff, 0xff7fffff, 0x7f800000, 0xff800000,
            0x7fc00000, 0xffc00000, 0x7fa00000, 0xffc12345, 0x7f800001, 0x3dcccccd, 0x3e4ccccd, 0x3f800001, 0x33800000, 0x33800001,
            0x4f000000, 0xcf000000, 0x4effffff, 0x5f000000, 0xdf000000, 0x5effffff, 0x4f800000, 0x42f60000, 0xc2f60000, 0x3fffffff,
            0x7f000000, 0x00400000, 0x501502f9, 0x2edbe6ff, 0x40490fdb, 0x47000000, 0x43000000, 0x437f0000, 0x46fffe00, 0xc7000000]
F64_POOL = [0x0000000000000000, 0x8000000000000000, 0x0000000000000001, 0x000fffffffffffff, 0x0010000000000000, 0x3ff0000000000000,
            0xbff0000000000000, 0x4000000000000000, 0x3fe0000000000000, 0x4004000000000000, 0xbff8000000000000, 0x4008000000000000,
            0x4170000000000000, 0x4170000010000000, 0x4340000000000000, 0x4340000000000001, 0x433fffffffffffff, 0x7fefffffffffffff,
            0xffefffffffffffff, 0x47efffffe0000000, 0x47effffff0000000, 0x47efffffefffffff, 0x7ff0000000000000, 0xfff0000000000000,
            0x7ff8000000000000, 0xfff8000000000000, 0x7ff4000000000000, 0xfff8000000012345, 0x7ff0000000000001, 0x3fb999999999999a,
            0x3fc999999999999a, 0x3ff0000010000000, 0x3ff0000010000001, 0x3ff000000fffffff, 0x3ff0000030000000, 0x41e0000000000000,
            0x41dfffffffc00000, 0x41dfffffffe00000, 0xc1e0000000000000, 0xc1e0000000100000, 0xc1e0000000200000, 0x43e0000000000000,
            0xc3e0000000000000, 0x43dfffffffffffff, 0x43f0000000000000, 0x41f0000000000000, 0x41efffffffe00000, 0x3690000000000000,
            0x36a0000000000000, 0x3690000000000001, 0x380fffffffffffff, 0x3810000000000000, 0x405ec00000000000, 0xc05ec00000000000,
            0x400921fb54442d18, 0x40dfffc000000000, 0x40e0000000000000, 0x4060000000000000, 0x406fe00000000000, 0x3fd5555555555555]
INT_POOL = {
    'bool': [0, 1], 'i8': [0, 1, -1, 2, 3, 127, -128, 100], 'u8': [0, 1, 2, 3, 255, 128, 200],
    'i16': [0, 1, -1, 2, 300, 32767, -32768], 'u16': [0, 1, 2, 65535, 32768, 40000],
    'i32': [0, 1, -1, 2, 3, 7, 10, 16777216, 16777217, 16777219, 33554433, 2147483647, -2147483648, 2147483520, 2147483583, 123456789, -5],
    'u32': [0, 1, 2, 3, 16777217, 2147483648, 4294967295, 4294967167, 4294967168, 3000000000],
    'i64': [0, 1, -1, 2, 3, 16777217, 9007199254740992, 9007199254740993, 9007199254740995, -9007199254740993, 9223372036854775807,
            -9223372036854775808, 9223372036854775295, 9223372036854775296, 4294967296, 2147483648, -2147483649, 1099511627775],
    'u64': [0, 1, 2, 3, 9007199254740993, 9223372036854775807, 9223372036854775808, 9223372036854775809, 9223372036854776833,
            18446744073709551615, 18446744073709550591, 18446744073709549568, 9223372036854777856, 13835058055282163713],
}

def f32_of_bits(b): return struct.unpack('<f', struct.pack('<I', b))[0]
def f64_of_bits(b): return struct.unpack('<d', struct.pack('<Q', b))[0]
def is_nan32(b): return (b >> 23) & 0xff == 0xff and b & 0x7fffff != 0
def is_nan64(b): return (b >> 52) & 0x7ff == 0x7ff and b & ((1 << 52) - 1) != 0
def is_finite_pos32(b): return b >> 31 == 0 and (b >> 23) & 0xff != 0xff
def is_finite_pos64(b): return b >> 63 == 0 and (b >> 52) & 0x7ff != 0x7ff

class Gen:
    def __init__(self, rng):
        self.rng = rng
        self.env = {}

    def value(self, t):
        r = self.rng
        if t == 'f32': return r.choice(F32_POOL) if r.random() < 0.8 else r.getrandbits(32)
        if t == 'f64': return r.choice(F64_POOL) if r.random() < 0.8 else r.getrandbits(64)
        if r.random() < 0.85: return r.choice(INT_POOL[t])
        return r.randint(tmin(t), tmax(t))

    def leaf(self, want):
        r = self.rng
        if want == 'int': t = r.choice(['i32', 'i32', 'i64', 'u32', 'u64', 'i8', 'u8', 'i16', 'u16', 'bool'])
        elif want == 'fp': t = r.choice(['f32', 'f64'])
        else: t = r.choice(['f32', 'f32', 'f32', 'f64', 'f64', 'f64', 'i32', 'i32', 'i64', 'u32', 'u64', 'i8', 'u8', 'i16', 'u16', 'bool'])
        if r.random() < 0.25:    # a constant (ND_NUM): non-negative, of a type a C constant can have
            if t == 'f32':
                b = r.choice([x for x in F32_POOL if is_finite_pos32(x)]); return ('LS', b)
            if t == 'f64':
                b = r.choice([x for x in F64_POOL if is_finite_pos64(x)]); return ('LD', b)
            if t in ('i32', 'u32', 'i64', 'u64'):
                v = r.choice([x for x in INT_POOL[t] if x >= 0]); return ('L', t, v)
        n = TYPES.index(t) + 11 * r.randrange(3)
        if n not in self.env: self.env[n] = (t, self.value(t))
        return ('V', t, n)

    def tree(self, depth, want='any'):
        r = self.rng
        if depth <= 0 or r.random() < 0.08: return self.leaf(want)
        x = r.random()
        d = depth - 1
        if want == 'fp':
            if x < 0.60: return ('B', r.choice(ARITH), *self.fp_pair(d))
            if x < 0.72: return ('U', r.choice(['Neg', 'Neg', 'Plus']), self.tree(d, 'fp'))
            if x < 0.86: return ('C', r.choice(['f32', 'f64']), self.tree(d, 'any'))
            if x < 0.95: return ('Q', self.tree(d, 'any'), *self.fp_pair(d))
            return ('M', self.tree(d, 'any'), self.tree(d, 'fp'))
        if want == 'int':
            if x < 0.30: return ('B', r.choice(CMP), self.tree(d, 'any'), self.tree(d, 'any'))
            if x < 0.42: return ('B', r.choice(LOGIC), self.tree(d, 'any'), self.tree(d, 'any'))
            if x < 0.52: return ('U', 'LogNot', self.tree(d, 'any'))
            if x < 0.70: return ('C', r.choice(ITYPES), self.tree(d, 'any'))
            if x < 0.80: return ('B', r.choice(ARITH + INTONLY + SHIFT), self.tree(d, 'int'), self.tree(d, 'int'))
            if x < 0.86: return ('U', r.choice(['Neg', 'BitNot', 'Plus']), self.tree(d, 'int'))
            if x < 0.93: return ('Q', self.tree(d, 'any'), self.tree(d, 'int'), self.tree(d, 'int'))
            return ('M', self.tree(d, 'any'), self.tree(d, 'int'))
        if x < 0.62: return self.tree(depth, 'fp')
        return self.tree(depth, 'int')

    def fp_pair(self, d):
        """two operands of which at least one is floating (so that the operation is a floating one)"""
        r = self.rng
        a = self.tree(d, 'fp'); b = self.tree(d, 'any' if r.random() < 0.5 else 'fp')
        return (a, b) if r.random() < 0.5 else (b, a)

# ---------- renderings ----------
def hexfloat(x, suffix):
    return x.hex() + suffix

def to_c(e):
    k = e[0]
    if k == 'L': return '%d%s' % (e[2], {'i32': '', 'u32': 'U', 'i64': 'L', 'u64': 'UL'}[e[1]])
    if k == 'LS': return hexfloat(f32_of_bits(e[1]), 'f')
    if k == 'LD': return hexfloat(f64_of_bits(e[1]), '')
    if k == 'V': return 'g%d' % e[2]
    if k == 'U': return '(%s(%s))' % (C_UN[e[1]], to_c(e[2]))
    if k == 'B': return '(%s %s %s)' % (to_c(e[2]), C_OP[e[1]], to_c(e[3]))
    if k == 'C': return '((%s)(%s))' % (C_T[e[1]], to_c(e[2]))
    if k == 'Q': return '(%s ? %s : %s)' % (to_c(e[1]), to_c(e[2]), to_c(e[3]))
    if k == 'M': return '(%s, %s)' % (to_c(e[1]), to_c(e[2]))

def zc(z): return '(%d)' % z
def to_coq(e):
    k = e[0]
    if k == 'L': return '(FLit %s %s)' % (COQ_I[e[1]], zc(e[2]))
    if k == 'LS': return '(FLitS (b32_of_bits %d))' % e[1]
    if k == 'LD': return '(FLitD (b64_of_bits %d))' % e[1]
    if k == 'V': return '(FVar %s %d%%nat)' % (COQ_T[e[1]], e[2])
    if k == 'U': return '(FUn C11Int.%s %s)' % (e[1], to_coq(e[2]))
    if k == 'B': return '(FBin C11Int.%s %s %s)' % (e[1], to_coq(e[2]), to_coq(e[3]))
    if k == 'C': return '(FCast %s %s)' % (COQ_T[e[1]], to_coq(e[2]))
    if k == 'Q': return '(FCond %s %s %s)' % (to_coq(e[1]), to_coq(e[2]), to_coq(e[3]))
    if k == 'M': return '(FComma %s %s)' % (to_coq(e[1]), to_coq(e[2]))

def coq_val(t, v):
    if t == 'f32': return '(VS (b32_of_bits %d))' % v
    if t == 'f64': return '(VD (b64_of_bits %d))' % v
    return '(VI %s)' % zc(v)

def ops_of(e, acc):
    k = e[0]
    if k == 'U': acc.append('un:' + e[1]); ops_of(e[2], acc)
    elif k == 'B':
        ta, tb = ctype(e[2]), ctype(e[3])
        cls = 'fp' if (is_fp(ta) or is_fp(tb)) and e[1] not in LOGIC else ('int' if e[1] not in LOGIC else 'logic')
        acc.append('%s:%s' % (cls, e[1])); ops_of(e[2], acc); ops_of(e[3], acc)
    elif k == 'C': acc.append('cast:%s>%s' % (ctype(e[2]), e[1])); ops_of(e[2], acc)
    elif k == 'Q': acc.append('cond'); ops_of(e[1], acc); ops_of(e[2], acc); ops_of(e[3], acc)
    elif k == 'M': acc.append('comma'); ops_of(e[1], acc); ops_of(e[2], acc)
    return acc

def depth_of(e):
    subs = [x for x in e[1:] if isinstance(x, tuple)]
    return 1 + max([depth_of(x) for x in subs], default=-1) if subs else 0

# ---------- the Coq side ----------
COQ_HEADER = r'''From Coq Require Import ZArith List String.
From Flocq Require Import Core Binary Bits.
From Chibicc Require Import Spec.C11Int Spec.C11Float Spec.C11LDouble Model.X86Int Model.X86Sse Model.FloatGen Model.FloatFlat Model.X87 Model.LDoubleGen.
Import ListNotations.
Local Open Scope Z_scope.
Set Printing Width 1000000.
Set Printing Depth 1000000.
Definition show_val (o : option val) : list string :=
  match o with
  | None => ["U"%string; "0"%string]
  | Some (VI z) => ["I"%string; zstr z]
  | Some (VS x) => ["S"%string; zstr (bits_of_b32 x)]
  | Some (VD x) => ["D"%string; zstr (bits_of_b64 x)]
  end.
Definition show_run (o : option Z) : string := match o with Some z => zstr z | None => "none"%string end.
Definition show (rho : nat -> val) (e : fexpr) : list string :=
  (show_val (feval rho e) ++ [show_run (run_expr rho e); (if modelled (compile e) then "m" else "t")%string] ++ flat_text e)%list.
Definition show_l80 (o : option binary80) : list string :=
  match o with None => ["U"%string; "0"%string] | Some x => ["L"%string; zstr (encode80 x)] end.
Definition lmodelled (c : list litem) : string := (if forallb litem_modelled c then "m" else "t")%string.
Definition lshow_val (rho : nat -> val) (lrho : nat -> binary80) (e : lexpr) : list string :=
  (show_l80 (leval rho lrho e) ++
   [match run_l rho lrho (lcompile e) with
    | Some (s, nil) => match st87 s with [x] => zstr (encode80 x) | _ => "none"%string end
    | _ => "none"%string end; lmodelled (lcompile e)] ++ ltext (lcompile e) 0)%list.
Definition lshow_int (rho : nat -> val) (lrho : nat -> binary80) (t : ty) (spec : option val) (c : list litem) : list string :=
  (show_val spec ++
   [match run_l rho lrho c with
    | Some (s, nil) => match st87 s with nil => zstr (result_bits t (ms s)) | _ => "none"%string end
    | _ => "none"%string end; lmodelled c] ++ ltext c 0)%list.
'''

def coq_cases(cases):
    out = [COQ_HEADER]
    for i, c in enumerate(cases):
        arms = ' '.join('| %d%%nat => %s' % (n, coq_val(t, v)) for n, (t, v) in sorted(c['env'].items()))
        out.append('Definition rho%d (n : nat) : val := match n with %s | _ => VI 0 end.' % (i, arms))
        if 'lroot' not in c:
            out.append('Eval vm_compute in show rho%d %s.' % (i, to_coq(c['full'])))
            continue
        larms = ' '.join('| %d%%nat => decode80 %d' % (n, v) for n, v in sorted(c['lenv'].items()))
        out.append('Definition lrho%d (n : nat) : binary80 := match n with %s | _ => decode80 0 end.' % (i, larms))
        r = c['lroot']
        if r[0] == 'val': out.append('Eval vm_compute in lshow_val rho%d lrho%d %s.' % (i, i, l_to_coq(r[1])))
        elif r[0] == 'cmp': out.append('Eval vm_compute in lshow_int rho%d lrho%d (TI I32) (leval_cmp rho%d lrho%d C11Int.%s %s %s) (lcompile_cmp C11Int.%s %s %s).'
                                       % (i, i, i, i, r[1], l_to_coq(r[2]), l_to_coq(r[3]), r[1], l_to_coq(r[2]), l_to_coq(r[3])))
        elif r[0] == 'not': out.append('Eval vm_compute in lshow_int rho%d lrho%d (TI I32) (leval_not rho%d lrho%d %s) (lcompile_not %s).'
                                       % (i, i, i, i, l_to_coq(r[1]), l_to_coq(r[1])))
        else: out.append('Eval vm_compute in lshow_int rho%d lrho%d %s (leval_cast rho%d lrho%d %s %s) (lcompile_cast %s %s).'
                         % (i, i, COQ_T[r[1]], i, i, COQ_T[r[1]], l_to_coq(r[2]), COQ_T[r[1]], l_to_coq(r[2])))
    return '\n'.join(out) + '\n'

def run_coq(cases, verif_dir, wd):
    f = os.path.join(wd, 'Cases_fpgen.v')
    open(f, 'w').write(coq_cases(cases))
    p = subprocess.run(['timeout', '300', 'coqc', '-Q', os.path.join(verif_dir, 'coq', 'theories'), 'Chibicc',
                        '-w', '-deprecated-syntactic-definition,-deprecated', f], cwd=wd, capture_output=True, text=True)
    if p.returncode != 0:
        raise RuntimeError('coqc failed on Cases_fpgen.v: ' + (p.stdout + p.stderr)[-800:])
    res = []
    # every Eval prints "     = [...]" (possibly over several lines) followed by "     : list string"
    for chunk in re.split(r'\n\s*: list string\s*\n?', p.stdout):
        if '=' not in chunk: continue
        items = re.findall(r'"([^"]*)"', chunk)
        if items: res.append(items)
    if len(res) != len(cases):
        raise RuntimeError('coqc printed %d results for %d cases' % (len(res), len(cases)))
    return res

# ---------- the chibicc side ----------
def norm_lines(lines):
    """instructions with jump targets as positions; rows of the cast table split at ';'; comments dropped"""
    out = []; labels = {}
    for l in lines:
        l = l.split('#')[0]
        # a cast row with local labels (1: / jae 1f ...) is one step of the model; other rows are split at ';'
        pieces = ['; '.join(x.strip() for x in l.split(';') if x.strip())] if re.search(r'(^|[ ;])\d+:|\b\d+[fb]\b', l) else l.split(';')
        for piece in pieces:
            piece = re.sub(r'\s+', ' ', piece.strip())
            if not piece: continue
            m = re.match(r'(\.L\.\w+\.\d+):$', piece)
            if m: labels[m.group(1)] = len(out); continue
            m = re.match(r'mov \$(-?\d+), (%rax|%eax)$', piece)
            if m: piece = 'mov $%d, %s' % (int(m.group(1)) % (1 << (64 if m.group(2) == '%rax' else 32)), m.group(2))
            out.append(piece)
    return [re.sub(r'(\.L\.\w+\.\d+)$', lambda m: '@%s' % labels.get(m.group(1), m.group(1)), l) for l in out]

def bodies_of(asm):
    bodies = {}; cur = None; started = False
    for l in asm.split('\n'):
        t = l.strip()
        m = re.match(r'^(t\d+):$', t)
        if m: cur = m.group(1); bodies[cur] = []; started = False; continue
        if cur is None or not t or t.startswith('.loc') or t.startswith('.file'): continue
        if t == 'mov %rsp, -8(%rbp)' and not started: started = True; continue
        if not started: continue
        if t == 'jmp .L.return.%s' % cur: cur = None; continue
        bodies[cur].append(t)
    return bodies

def c_program(cases, call):
    o = ['int printf(const char*, ...);']
    maxn = max([n for c in cases for n in c['env']] + [0])
    for n in range(0, (maxn // 11 + 1) * 11): o.append('%s g%d;' % (C_T[TYPES[n % 11]], n))
    o.append('static void setf(float *p, unsigned u) { union { unsigned u; float f; } x; x.u = u; *p = x.f; }')
    o.append('static void setd(double *p, unsigned long u) { union { unsigned long u; double f; } x; x.u = u; *p = x.f; }')
    o.append('static unsigned long bitsf(float f) { union { unsigned u; float f; } x; x.u = 0; x.f = f; return x.u; }')
    o.append('static unsigned long bitsd(double f) { union { unsigned long u; double f; } x; x.f = f; return x.u; }')
    o.append('long double h0, h1, h2, h3;')
    o.append('static void setl(long double *p, unsigned long lo, unsigned long hi) { union { long double d; unsigned long u[2]; } x; x.u[0] = lo; x.u[1] = hi; *p = x.d; }')
    for i, c in enumerate(cases):
        o.append('%s t%d(void) { return %s; }' % (C_T[c.get('crt', c['rt'])], i, c['ctext'] if 'lroot' in c else to_c(c['e'])))
    o.append('int main(void) {')
    for i, c in enumerate(cases):
        if i not in call: continue
        for n, (t, v) in sorted(c['env'].items()):
            if t == 'f32': o.append('  setf(&g%d, %dU);' % (n, v))
            elif t == 'f64': o.append('  setd(&g%d, %dUL);' % (n, v))
            else: o.append('  g%d = (%s)%dUL;' % (n, C_T[t], v % (1 << 64)))
        for n, v in sorted(c.get('lenv', {}).items()): o.append('  setl(&h%d, %dUL, %dUL);' % (n, v & ((1 << 64) - 1), v >> 64))
        if c['rt'] == 'f80':
            o.append('  { union { long double d; unsigned long u[2]; } r; r.u[0] = 0; r.u[1] = 0; r.d = t%d(); printf("%d %%lu %%lu\\n", r.u[0], r.u[1] & 65535); }' % (i, i))
        elif c['rt'] == 'f32': o.append('  printf("%d %%lu\\n", bitsf(t%d()));' % (i, i))
        elif c['rt'] == 'f64': o.append('  printf("%d %%lu\\n", bitsd(t%d()));' % (i, i))
        else: o.append('  printf("%d %%lu\\n", (unsigned long)t%d());' % (i, i))
    o.append('  return 0;\n}')
    return '\n'.join(o) + '\n'

def classify(rt, bits):
    if rt == 'f80':
        e, m = (bits >> 64) & 0x7fff, bits & ((1 << 64) - 1)
        return 'nan' if e == 0x7fff and m & ((1 << 63) - 1) else 'inf' if e == 0x7fff else 'zero' if e == 0 and m == 0 else 'denormal' if e == 0 else 'normal'
    if rt == 'f32':
        e, m = (bits >> 23) & 0xff, bits & 0x7fffff
        return 'nan' if e == 0xff and m else 'inf' if e == 0xff else 'zero' if e == 0 and m == 0 else 'denormal' if e == 0 else 'normal'
    if rt == 'f64':
        e, m = (bits >> 52) & 0x7ff, bits & ((1 << 52) - 1)
        return 'nan' if e == 0x7ff and m else 'inf' if e == 0x7ff else 'zero' if e == 0 and m == 0 else 'denormal' if e == 0 else 'normal'
    return 'int'

SPECIAL32 = [0x7fc00000, 0xffc00000, 0x7fa00000, 0xffc12345, 0x00000000, 0x80000000, 0x3f800000, 0xbf800000, 0x7f800000, 0xff800000,
             0x00000001, 0x80000001, 0x7f7fffff, 0x00800000]
SPECIAL64 = [0x7ff8000000000000, 0xfff8000000000000, 0x7ff4000000000000, 0xfff8000000012345, 0x0000000000000000, 0x8000000000000000,
             0x3ff0000000000000, 0xbff0000000000000, 0x7ff0000000000000, 0xfff0000000000000, 0x0000000000000001, 0x8000000000000001,
             0x7fefffffffffffff, 0x0010000000000000]

BIG_U64 = [1 << 63, (1 << 63) + 1, (1 << 63) + (1 << 39), (1 << 63) + (1 << 39) + 1, (1 << 63) + (1 << 40) - 1, (1 << 63) + (1 << 40),
           (1 << 63) + (3 << 39), (1 << 63) + (3 << 39) - 1, (1 << 63) + (1 << 10), (1 << 63) + (1 << 10) + 1, (1 << 63) + (3 << 10),
           (1 << 63) + (3 << 10) + 1, (1 << 63) + (1 << 11) - 1, (1 << 64) - 1, (1 << 64) - (1 << 10), (1 << 64) - (1 << 10) - 1,
           (1 << 64) - (1 << 39), (1 << 64) - (1 << 39) - 1, (1 << 64) - (1 << 40), (1 << 63) - 1, (1 << 63) - (1 << 38), 0, 1]
BIG_F32 = [0x5f000000, 0x5f000001, 0x5f7fffff, 0x5f800000, 0x5effffff, 0x5f400000, 0x3f800000, 0x00000000, 0x80000000, 0xbf000000,
           0xbf800000, 0x4f000000, 0x7fc00000, 0x7f800000]
BIG_F64 = [0x43e0000000000000, 0x43e0000000000001, 0x43efffffffffffff, 0x43f0000000000000, 0x43dfffffffffffff, 0x43e8000000000000,
           0x3ff0000000000000, 0x0000000000000000, 0x8000000000000000, 0xbfe0000000000000, 0xbff0000000000000, 0x41e0000000000000,
           0x7ff8000000000000, 0x7ff0000000000000, 0x43e0000000000400]

def focused(g):
    """one operator on boundary operands: the case splits of the per-operator lemmas"""
    r = g.rng
    def var(t, v=None):
        n = TYPES.index(t) + 11 * r.randrange(3)
        while n in g.env and v is not None and g.env[n] != (t, v): n = TYPES.index(t) + 11 * r.randrange(3, 9)
        if n not in g.env: g.env[n] = (t, g.value(t) if v is None else v)
        return ('V', t, n)
    def special(t): return var(t, r.choice(SPECIAL32 if t == 'f32' else SPECIAL64))
    kind = r.choice(['cmp', 'cmp', 'truth', 'cast', 'cast', 'cast', 'arith', 'arith', 'neg', 'rank', 'u64', 'u64'])
    t = r.choice(['f32', 'f64'])
    if kind == 'u64':      # the branching rows: unsigned long <-> float / double around 2^63 and the rounding ties
        if r.random() < 0.5:
            x = r.random()
            if x < 0.4:     # just above a rounding tie of the target format: only the sticky bit tells it from the tie
                k = r.choice([1, 3, 5, 7, 9, 1023, (1 << 20) + 1]); sh = 39 if t == 'f32' else 10
                v = ((1 << 63) + (k << sh) + r.choice([1, 1, 3, -1, 0])) % (1 << 64)
            elif x < 0.85: v = r.choice(BIG_U64)
            else: v = r.randrange(1 << 63, 1 << 64)
            return ('C', t, var('u64', v))
        return ('C', 'u64', var(t, r.choice(BIG_F32 if t == 'f32' else BIG_F64)))
    if kind == 'cmp':
        u = t if r.random() < 0.7 else r.choice(['f32', 'f64', 'i32', 'i64', 'u32'])
        return ('B', r.choice(CMP + ['OEq', 'OEq', 'ONe']), special(t), special(u) if is_fp(u) else var(u))
    if kind == 'truth':
        x = special(t); k = r.randrange(6)
        if k == 0: return ('U', 'LogNot', x)
        if k == 1: return ('B', 'LAnd', x, special(r.choice(['f32', 'f64'])))
        if k == 2: return ('B', 'LOr', x, special(r.choice(['f32', 'f64'])))
        if k == 3: return ('Q', x, ('L', 'i32', 1), ('L', 'i32', 2))
        if k == 4: return ('C', 'bool', x)
        return ('U', 'LogNot', ('U', 'LogNot', x))
    if kind == 'cast':
        a, b = r.choice(TYPES), r.choice(TYPES)
        if not is_fp(a) and not is_fp(b): b = t
        return ('C', b, var(a))
    if kind == 'arith':
        return ('B', r.choice(ARITH), special(t) if r.random() < 0.7 else var(t), special(t) if r.random() < 0.7 else var(t))
    if kind == 'neg':
        return ('U', 'Neg', special(t) if r.random() < 0.8 else var(r.choice(TYPES)))
    return ('B', r.choice(ARITH + CMP), var('f32'), var(r.choice(['f64', 'i32', 'i64', 'u32', 'i8'])))

# ---------- long double (x87 path) ----------
# 80-bit patterns (sign/exponent word << 64 | significand with the explicit integer bit); only valid encodings
def f80(hi, lo): return (hi << 64) | lo
F80_POOL = [f80(0, 0), f80(0x8000, 0), f80(0x3fff, 1 << 63), f80(0xbfff, 1 << 63), f80(0x4000, 1 << 63), f80(0x3ffe, 1 << 63),
            f80(0x4000, 0xa000000000000000), f80(0xbfff, 0xc000000000000000), f80(0x403e, 1 << 63), f80(0x403f, 1 << 63),
            f80(0x403e, 0xffffffffffffffff), f80(0xc03e, 1 << 63), f80(0x403d, 0xffffffffffffffff), f80(0x7ffe, 0xffffffffffffffff),
            f80(0xfffe, 0xffffffffffffffff), f80(0x0001, 1 << 63), f80(0, 1), f80(0, 0x7fffffffffffffff), f80(0x8000, 1),
            f80(0x7fff, 1 << 63), f80(0xffff, 1 << 63), f80(0x7fff, 0xc000000000000000), f80(0xffff, 0xc000000000000000),
            f80(0x7fff, 0xa000000000000000), f80(0x7fff, 0xc000000000012345), f80(0x3fff, 0x8000000000000001),
            f80(0x3fff, 0x8000000000000400), f80(0x3fff, 0x8000000000000401), f80(0x3fff, 0x80000000000003ff), f80(0x3fff, 0x8000000000000c00),
            f80(0x3fff, 0x8000008000000000), f80(0x3fff, 0x8000008000000001), f80(0x3fff, 0x8000018000000000), f80(0x3fff, 0xffffffffffffffff),
            f80(0x401e, 1 << 63), f80(0x401d, 0xffffffff00000000), f80(0x401d, 0xfffffffe00000000), f80(0xc01e, 0x8000000100000000),
            f80(0xc01e, 0x8000000080000000), f80(0x4006, 0xf600000000000000), f80(0xc006, 0xf600000000000000), f80(0x4000, 0xeccccccccccccccd),
            f80(0xc000, 0xeccccccccccccccd), f80(0x3ffb, 0xcccccccccccccccd), f80(0x43fe, 0xffffffffffffffff), f80(0x407e, 0xffffff8000000000),
            f80(0x407e, 0xffffff0000000000), f80(0x3f6a, 1 << 63), f80(0x3c00, 1 << 63), f80(0x3bcd, 1 << 63), f80(0x400e, 0xfffe000000000000),
            f80(0x4007, 0x8000000000000000), f80(0x4006, 0xff00000000000000), f80(0x400e, 0x8000000000000000), f80(0x3ffe, 0xffffffffffffffff)]
def is_nan80(b): return (b >> 64) & 0x7fff == 0x7fff and b & ((1 << 63) - 1) != 0
def is_finite_pos80(b): return b >> 79 == 0 and (b >> 64) & 0x7fff != 0x7fff

def l_literal(b):
    """a C constant for a non-negative finite 80-bit value: significand * 2^exponent as a hexadecimal floating constant"""
    e = (b >> 64) & 0x7fff; m = b & ((1 << 64) - 1)
    if m == 0: return '0x0p+0L'
    return '0x%xp%+dL' % (m, (e if e else 1) - 16383 - 63)

class LGen:
    def __init__(self, g): self.g = g; self.rng = g.rng; self.lenv = {}
    def leaf(self):
        r = self.rng; x = r.random()
        if x < 0.15: return ('LL', r.choice([b for b in F80_POOL if is_finite_pos80(b)]))
        if x < 0.65:
            n = r.randrange(4)
            if n not in self.lenv: self.lenv[n] = r.choice(F80_POOL)
            return ('LV', n)
        return ('LO', self.g.tree(r.choice([0, 0, 0, 1, 2]), 'any'))
    def tree(self, depth):
        r = self.rng
        if depth <= 0 or r.random() < 0.1: return self.leaf()
        x = r.random()
        if x < 0.8: return ('LB', r.choice(ARITH), self.tree(depth - 1), self.tree(depth - 1))
        return ('LN', self.tree(depth - 1))

def l_to_c(e):
    k = e[0]
    if k == 'LL': return l_literal(e[1])
    if k == 'LV': return 'h%d' % e[1]
    if k == 'LO': return '((long double)(%s))' % to_c(e[1])
    if k == 'LN': return '(-(%s))' % l_to_c(e[1])
    return '(%s %s %s)' % (l_to_c(e[2]), C_OP[e[1]], l_to_c(e[3]))
def l_to_coq(e):
    k = e[0]
    if k == 'LL': return '(LLit (decode80 %d))' % e[1]
    if k == 'LV': return '(LVar %d%%nat)' % e[1]
    if k == 'LO': return '(LOf %s)' % to_coq(e[1])
    if k == 'LN': return '(LNeg %s)' % l_to_coq(e[1])
    return '(LBin C11Int.%s %s %s)' % (e[1], l_to_coq(e[2]), l_to_coq(e[3]))
def l_depth(e):
    k = e[0]
    if k in ('LL', 'LV', 'LO'): return 0
    if k == 'LN': return 1 + l_depth(e[1])
    return 1 + max(l_depth(e[2]), l_depth(e[3]))

def make_lcase(rng):
    g = Gen(rng); lg = LGen(g)
    depth = rng.choice([0, 1, 1, 2, 2, 3, 4])
    x = rng.random()
    if x < 0.35:
        root = ('val', lg.tree(depth)); rt = 'f80'; ctext = l_to_c(root[1])
    elif x < 0.55:
        o = rng.choice(CMP + ['OEq', 'ONe']); a, b = lg.tree(max(0, depth - 1)), lg.tree(max(0, depth - 1))
        root = ('cmp', o, a, b); rt = 'i32'; ctext = '(%s %s %s)' % (l_to_c(a), C_OP[o], l_to_c(b))
    elif x < 0.63:
        a = lg.tree(max(0, depth - 1)); root = ('not', a); rt = 'i32'; ctext = '(!(%s))' % l_to_c(a)
    else:
        a = lg.tree(max(0, depth - 1)); rt = rng.choice(TYPES); root = ('cast', rt, a); ctext = '((%s)(%s))' % (C_T[rt], l_to_c(a))
    # (a function returning _Bool would add a second conversion to _Bool: the value is returned as int instead)
    return dict(lroot=root, rt=rt, crt=('i32' if rt == 'bool' else rt), ctext=ctext, env=g.env, lenv=lg.lenv, depth=depth, e=None, full=None)

def make_cases(seed, n):
    rng = random.Random(seed)
    cases = []
    for i in range(n):
        if rng.random() < 0.25:
            cases.append(make_lcase(rng)); continue
        g = Gen(rng)
        depth = rng.choice([1, 1, 2, 2, 3, 3, 4, 5])
        e = focused(g) if rng.random() < 0.3 else g.tree(depth, 'any')
        t = ctype(e)
        r = rng.random()
        rt = t if r < 0.6 else rng.choice(['f32', 'f64']) if r < 0.8 else rng.choice(TYPES)
        cases.append(dict(e=e, rt=rt, full=('C', rt, e), env=g.env, depth=depth_of(e)))
    return cases

def run(src_dir, seed=1, n=400, verif_dir=None):
    verif_dir = verif_dir or os.path.dirname(os.path.dirname(os.path.abspath(__file__)))
    chibicc = os.path.join(src_dir, 'chibicc')
    cases = make_cases(seed, n)
    wd = tempfile.mkdtemp(prefix='tie_fpgen_')
    impl_vs_spec = []; impl_vs_model = []; dist = {}; samples = []; nontrivial = set(); evaluations = 0
    def bump(k): dist[k] = dist.get(k, 0) + 1
    try:
        coq = run_coq(cases, verif_dir, wd)
        spec = []
        for c, items in zip(cases, coq):
            tag, val, mrun, modelled = items[0], int(items[1]), items[2], items[3] == 'm'
            c['spec'] = None if tag == 'U' else (tag, val)
            c['mrun'] = None if mrun == 'none' else int(mrun)
            c['modelled'] = modelled
            c['text'] = items[4:]
        call = {i for i, c in enumerate(cases) if c['spec'] is not None}
        src = os.path.join(wd, 'cases.c'); open(src, 'w').write(c_program(cases, call))
        p = subprocess.run([chibicc, '-S', '-o', '-', src], capture_output=True, text=True, timeout=120)
        if p.returncode != 0:
            impl_vs_spec.append(dict(case='all', impl='chibicc -S rejected the generated program: ' + p.stderr[-400:], spec='valid C'))
            bodies = {}
        else:
            bodies = bodies_of(p.stdout)
        exe = os.path.join(wd, 'cases.exe')
        p = subprocess.run([chibicc, '-o', exe, src], capture_output=True, text=True, timeout=120)
        got = {}
        if p.returncode != 0:
            impl_vs_spec.append(dict(case='all', impl='chibicc rejected the generated program: ' + p.stderr[-400:], spec='valid C'))
        else:
            q = subprocess.run([exe], capture_output=True, text=True, timeout=60)
            for l in q.stdout.split('\n'):
                m = re.match(r'^(\d+) (\d+)$', l)
                if m: got[int(m.group(1))] = int(m.group(2))
                m = re.match(r'^(\d+) (\d+) (\d+)$', l)
                if m: got[int(m.group(1))] = int(m.group(2)) | (int(m.group(3)) << 64)
            if q.returncode != 0:
                impl_vs_spec.append(dict(case='all', impl='the compiled program ended with status %d after %d results' % (q.returncode, len(got)), spec='status 0'))
        for i, c in enumerate(cases):
            isl = 'lroot' in c
            cstr = '%s t(void) { return %s; }  with %s' % (C_T[c.get('crt', c['rt'])], c['ctext'] if isl else to_c(c['e']),
                   ', '.join(['g%d=%s' % (k, hex(v) if is_fp(t) else v) for k, (t, v) in sorted(c['env'].items())] +
                             ['h%d=%s' % (k, hex(v)) for k, v in sorted(c.get('lenv', {}).items())]))
            ops = ['ld:' + c['lroot'][0] + (':' + c['lroot'][1] if c['lroot'][0] in ('cmp', 'cast') else '')] if isl else ops_of(c['full'], [])
            for o in set(ops): bump('op ' + (o if not o.startswith('cast:') else 'cast ' + ('fp>fp' if is_fp(o[5:].split('>')[0]) and is_fp(o.split('>')[1]) else 'int>fp' if is_fp(o.split('>')[1]) else 'fp>int' if is_fp(o[5:].split('>')[0]) else 'int>int')))
            bump('depth %d' % c['depth'])
            bump('modelled' if c['modelled'] else 'contains unmodelled cast row')
            # (2) text
            evaluations += 1
            emitted = norm_lines(bodies.get('t%d' % i, ['<missing>'])); want = norm_lines(c['text'])
            if emitted != want:
                d = next((j for j in range(min(len(emitted), len(want))) if emitted[j] != want[j]), min(len(emitted), len(want)))
                impl_vs_model.append(dict(case=cstr, kind='instructions', at=d, impl=emitted[max(0, d - 2):d + 3], model=want[max(0, d - 2):d + 3]))
            # (1) value
            if c['spec'] is None:
                bump('result undefined in C (not run)'); continue
            evaluations += 1
            tag, sv = c['spec']
            rt = c['rt']
            hv = got.get(i)
            cls = classify(rt, sv); bump('result ' + rt + ' ' + cls)
            if hv is None:
                impl_vs_spec.append(dict(case=cstr, impl='no result printed', spec=sv)); continue
            if rt == 'f80': ok = (is_nan80(hv) and is_nan80(sv)) or hv == sv
            elif rt == 'f32': ok = (is_nan32(hv) and is_nan32(sv)) or hv == sv
            elif rt == 'f64': ok = (is_nan64(hv) and is_nan64(sv)) or hv == sv
            else: ok = hv % (1 << 64) == sv % (1 << 64)
            if not ok: impl_vs_spec.append(dict(case=cstr, impl=hv, spec=sv))
            # (3) machine model bit for bit (NaN payloads included)
            if c['mrun'] is not None:
                evaluations += 1
                hm = hv % (1 << 32) if (rt in WIDTH and WIDTH[rt] < 64) else hv
                both_nan = (rt == 'f80' and is_nan80(hm) and is_nan80(c['mrun'])) or (rt == 'f32' and is_nan32(hm) and is_nan32(c['mrun'])) or \
                           (rt == 'f64' and is_nan64(hm) and is_nan64(c['mrun']))
                if hm != c['mrun'] and not (isl and both_nan):   # (which NaN the x87 delivers is not modelled; the SSE NaN rule is)
                    impl_vs_model.append(dict(case=cstr, kind='machine result (bits)', impl=hv, model=c['mrun']))
            elif c['modelled']:
                impl_vs_model.append(dict(case=cstr, kind='the model machine stops although C defines the value', impl=hv, model=None))
            if isl or any(o.startswith('fp:') or o.startswith('cast:f') or '>f' in o for o in ops): nontrivial.add((c['ctext'] if isl else to_c(c['e']), tuple(sorted(c['env'].items())), tuple(sorted(c.get('lenv', {}).items())), rt))
            if len(samples) < 6:
                samples.append(dict(case=cstr, spec=sv, impl=hv, machine=c['mrun'], instructions=len(want)))
    finally:
        shutil.rmtree(wd, ignore_errors=True)
    return dict(evaluations=evaluations, distinct_nontrivial=len(nontrivial), distribution=dict(sorted(dist.items())),
                impl_vs_spec=impl_vs_spec, impl_vs_model=impl_vs_model, samples=samples)

if __name__ == '__main__':
    src = sys.argv[1]
    seed = int(sys.argv[2]) if len(sys.argv) > 2 else 1
    n = int(sys.argv[3]) if len(sys.argv) > 3 else 400
    r = run(src, seed, n)
    print(json.dumps(r, indent=1, default=str))
    sys.exit(1 if r['impl_vs_spec'] or r['impl_vs_model'] else 0)
