#!/usr/bin/env python3
"""C13 - every input is answered with output or a located diagnostic.
   proofs (the line and line number shown with a diagnostic are those of the offending token; the
   lexer model answers every byte string with tokens or an explicit error) + correspondence and
   search on mutated inputs:
   (a) outcome classes: for byte strings and token-level edits of valid programs the lexer model
       (accept / reject) and, for macro programs, the macro model (ok / error) agree with the
       implementation's class (exit 0 / exit 1 with a diagnostic) - the error branches of the models;
   (b) the oracle of the property itself on every mutant, with `chibicc -cc1` run directly so that
       signals are visible: exit 0 and the assembler accepts the output, or exit 1 and the first
       line of stderr names an input file and a line that exists in it; never a signal, an
       'internal error', a hang, or silence; edits that cannot change the meaning (white space,
       comments, redundant parentheses) of an accepted program must be accepted;
   (c) the driver never hides a crashed front end (exit status non-zero and a message)."""
import os, sys, time, random, json, re, glob, signal
sys.path.insert(0, os.path.dirname(os.path.abspath(__file__)))
from vlib import *

PID = 'C13'
THEOREMS = ['C13_diagnostic_shows_the_line', 'C13_diagnostic_line_number', 'C13_lexer_answers', 'C13_nonvacuous']
MODELRUN = os.path.join(VERIF, 'ocaml/modelrun')

SEEDS = [
 'int printf(const char *, ...);\nstruct S { int a; char b[3]; union { long l; double d; }; int f : 3; };\nenum E { A, B = 5, C };\nstatic int g(int x, struct S *p) { switch (x) { case 1: return p->a; case 2 ... 4: return p->b[1]; default: break; } return x ? p->f : (int)p->d; }\nint main(void) { struct S s = { 1, "ab", .l = 7, 2 }; int a[3] = { [1] = 2 }; for (int i = 0; i < 3; i++) a[i] += g(i, &s); do { s.a--; } while (s.a > 0); goto end; end: return printf("%d %d\\n", a[0], (int)sizeof(s)); }\n',
 '#include <stdarg.h>\n#include <stddef.h>\n#define CAT(a, b) a##b\n#define STR(x) #x\n#define MAX(a, b) ((a) > (b) ? (a) : (b))\n#if defined(__x86_64__) && MAX(1, 2) == 2\ntypedef long word;\n#else\ntypedef int word;\n#endif\nstatic word sum(int n, ...) { va_list ap; va_start(ap, n); word s = 0; while (n-- > 0) s += va_arg(ap, int); va_end(ap); return s; }\nconst char *name = STR(CAT(ab, cd));\nint main(void) { _Alignas(16) char buf[32]; return (int)sum(3, 1, 2, 3) + (int)offsetof(struct { char c; long l; }, l) + (int)_Alignof(buf[0]) + sizeof(word); }\n',
 'typedef struct node { struct node *next; int v; } node;\nextern int ext;\nstatic _Thread_local int tl;\nfloat fx = 1.5f; double dx = 2.5e3; long double lx = 0x1p3L; char *s = "a\\tb\\x41\\101" "cat"; int w = L\'x\'; unsigned long ul = 0xfffffffffffffffful; _Bool bb = 3;\nint (*fp)(int, int);\nint add(int a, int b) { return a + b; }\nint main(void) { node n = { 0, 1 }, *p = &n; fp = add; int x = fp(1, 2) + p->v; x <<= 2; x ^= ~x; long y = x > 3 && x < 100 || !x; y = (x, y); void *q = &&lab; goto *q; lab: return ({ int t = (int)y; t + sizeof(int[x ? 1 : 2]); }) + (tl = 3) + _Generic(x, int: 1, default: 2); }\n',
 # every spelling of the specifiers and qualifiers the parser accepts and ignores, in specifier position, after '*' and in array parameters
 'typedef char *str; typedef const char *cstr;\nextern int printf(const char *__restrict, ...);\nstatic int f1(str __restrict p, cstr __restrict__ q, str restrict r) { return p[0] + q[0] + r[0]; }\nstatic int f2(int *restrict a, int *__restrict b, int *__restrict__ c, int d[restrict static 2], int e[const 2], int g[volatile]) { return *a + *b + *c + d[1] + e[1] + g[0]; }\nstatic _Noreturn void die(void) { for (;;); }\nstatic inline int f3(register int x) { auto int y = x; volatile const int z = y; int const volatile *__restrict__ const w = 0; return z + (w == 0); }\nint main(void) { char s[2] = "a"; int v[2] = {1, 2}; signed long long int const k = 3; unsigned long int long u = 4; if (v[0] > 5) die(); return f1(s, s, s) + f2(v, v, v, v, v, v) + f3(2) + (int)k + (int)u; }\n',
]
BENIGN = [('  ', ' '), ('(', '( '), (';', ' ;'), ('{', '{ /* c */'), ('\n', '\n// comment\n'), (' = ', ' =\\\n ')]

def mutate(rng, text):
    toks = re.findall(r'[A-Za-z_]\w*|\d[\w.]*|"(?:\\.|[^"\\])*"|\'(?:\\.|[^\'\\])*\'|\s+|[^\w\s]', text)
    n = len(toks)
    for _ in range(rng.randint(1, 3)):
        if not toks: break
        i = rng.randrange(len(toks)); k = rng.random()
        if k < 0.2: del toks[i]
        elif k < 0.4: toks[i] = rng.choice(toks)
        elif k < 0.55: toks.insert(i, rng.choice(toks))
        elif k < 0.65: toks.insert(i, toks[i])
        elif k < 0.75 and len(toks) > 1: j = rng.randrange(len(toks)); toks[i], toks[j] = toks[j], toks[i]
        elif k < 0.9: toks.insert(i, rng.choice(['(', ')', '{', '}', '[', ']', ';', ',', '#', '##', '"', "'", '\\', '/*', '*/', '//', '...', '->', '.', '=', '0x', '1e', '08', '1.2.3', '@', '`', '$', '\x80', '\xff', 'int', 'struct', 'typedef', 'sizeof', '_Atomic', '__attribute__', 'goto', 'case', 'default:', '#define', '#include', '#if', '#endif', '#else', '#line', '#pragma', '__VA_ARGS__', 'defined']))
        else:
            j = rng.randrange(len(toks)); toks = toks[:min(i, j)] + toks[max(i, j):]
    return ''.join(toks)

def scale_programs(rng, quick):
    """valid programs that are large in ONE dimension each (names in one table, nesting depth, list length, token length):
    'for every input' includes the ones that make a table grow, rehash, fill with tombstones, or a recursion go deep"""
    k = 1 if quick else 4
    P = []
    n = rng.choice([700, 1300]) * k
    P.append(('define-undef-churn', ''.join('#define X_%d %d\n#undef X_%d\n' % (i, i, i) for i in range(n)) + 'int keep_%d;\nint main(void) { return keep_%d; }\n' % (n, n)))
    P.append(('define-churn-same-names', ''.join('#define Y_%d %d\n#undef Y_%d\n' % (i % 37, i, i % 37) for i in range(n)) + '#define Y_1 5\nint main(void) { return Y_1; }\n'))
    n = rng.choice([1500, 2500]) * k
    P.append(('many-macros-live', ''.join('#define M_%d (M_%d + 1)\n' % (i, i - 1) if i % 50 else '#define M_%d 1\n' % i for i in range(n)) + 'int main(void) { return M_%d; }\n' % (n - 1)))
    P.append(('many-globals', ''.join('int g_%d = %d;\n' % (i, i) for i in range(n)) + 'int main(void) { return g_0 + g_%d; }\n' % (n - 1)))
    P.append(('many-locals', 'int main(void) {\n' + ''.join('  int l_%d = %d;\n' % (i, i) for i in range(n)) + '  return l_0 + l_%d; }\n' % (n - 1)))
    P.append(('many-tags-typedefs-enums', ''.join('struct S_%d { int m_%d; }; typedef struct S_%d T_%d; enum { E_%d = %d };\n' % (i, i, i, i, i, i) for i in range(n // 2)) + 'int main(void) { T_7 t = { E_7 }; return t.m_7; }\n'))
    P.append(('many-functions-and-calls', ''.join('static int f_%d(int x) { return x + %d; }\n' % (i, i) for i in range(n // 2)) + 'int main(void) { int s = 0;\n' + ''.join('  s += f_%d(s);\n' % i for i in range(n // 2)) + '  return s; }\n'))
    d = rng.choice([150, 300]) * k
    P.append(('nested-parentheses', 'int main(void) { return ' + '(' * d + '1' + ')' * d + '; }\n'))
    P.append(('nested-blocks', 'int main(void) { int x = 0; ' + '{ x++; ' * d + '}' * d + ' return x; }\n'))
    P.append(('nested-macro-calls', '#define F(x) ((x) + 1)\nint main(void) { return ' + 'F(' * (d // 3) + '0' + ')' * (d // 3) + '; }\n'))
    P.append(('nested-unary-and-casts', 'int main(void) { int x = 1; return ' + '-(long)!~' * (d // 2) + 'x; }\n'))
    P.append(('long-left-chain', 'int main(void) { int x = 1; return x' + ' + x' * (n * 2) + '; }\n'))
    P.append(('nested-if-else-chain', 'int f(int x) {\n' + ''.join('  if (x == %d) return %d; else\n' % (i, i) for i in range(d * 3)) + '  return -1; }\nint main(void) { return f(3); }\n'))
    m = rng.choice([20000, 50000]) * k
    P.append(('long-array-initializer', 'int a[] = {' + ','.join(str(i % 97) for i in range(m)) + '};\nint main(void) { return a[%d]; }\n' % (m - 1)))
    P.append(('large-automatic-array-initializers', 'int printf(const char *, ...);\nstruct B { char b[%d]; };\nint main(void) { char buf[%d] = {0}; int a[%d] = {1, 2, [%d] = 3}; struct B x; x = (struct B){0}; char s[%d] = "abc"; return buf[5] + a[7] + x.b[3] + s[9]; }\n' % (m * 2, m * 2, m, m - 1, m * 3)))
    P.append(('long-string-literal', 'char s[] = "' + 'ab\\n' * (m // 2) + '";\nint main(void) { return s[5]; }\n'))
    P.append(('many-string-literals', 'char *t[] = {' + ','.join('"s%d"' % i for i in range(n * 2)) + '};\nint main(void) { return t[1][0]; }\n'))
    P.append(('long-identifier', 'int %s = 3;\nint main(void) { return %s; }\n' % ('v' * (m // 5), 'v' * (m // 5))))
    P.append(('many-cases', 'int f(int x) { switch (x) {\n' + ''.join('  case %d: return %d;\n' % (i * 3, i) for i in range(n)) + '  default: return -1; } }\nint main(void) { return f(9); }\n'))
    P.append(('many-labels', 'int main(void) { int x = 0;\n' + ''.join('  goto L_%d; L_%d: x++;\n' % (i, i) for i in range(n // 2)) + '  return x; }\n'))
    P.append(('many-members', 'struct B { ' + ' '.join('int m_%d;' % i for i in range(n)) + ' };\nint main(void) { struct B b = { .m_%d = 1 }; return b.m_%d + (int)sizeof(b); }\n' % (n - 1, n - 1)))
    P.append(('many-params-and-args', 'int f(' + ', '.join('int p_%d' % i for i in range(200)) + ') { return p_0 + p_199; }\nint main(void) { return f(' + ', '.join(str(i) for i in range(200)) + '); }\n'))
    P.append(('many-blank-lines-and-comments', '\n' * m + '/* c */ ' * (m // 10) + '\nint main(void) { return 0; } // end\n'))
    P.append(('long-line-splices', 'int main(void) { return 0 ' + '\\\n + 1 ' * (n * 2) + '; }\n'))
    P.append(('many-conditional-groups', ''.join('#if %d > 3\nint c_%d;\n#elif defined(NOPE_%d)\nint d_%d;\n#else\nint e_%d;\n#endif\n' % (i % 7, i, i, i, i) for i in range(n)) + 'int main(void) { return 0; }\n'))
    return P

def immediate_programs(rng, quick):
    """constants on both sides of 2^31, 2^32 and 2^63 in every position where the code generator may write an immediate or a displacement
    (operands, scaled pointer arithmetic, case labels and ranges, bit-field masks, shifts, member offsets): the output must assemble"""
    EDGE = [0x7f, 0x80, 0xff, 0x7fff, 0x8000, 0xffff, 0x7fffffff, 0x80000000, 0x80000001, 0xfffffffe, 0xffffffff, 0x100000000, 0x100000001, 0x7fffffffffffffff]
    def K(signed=True):
        v = rng.choice(EDGE) + rng.choice([0, 0, 1, -1, 7])
        if signed and rng.random() < 0.4: return '(-%dL - %d)' % (max(v - 1, 0), 1) if v > 0 else '0L'
        return ('%dL' % v) if signed and v <= 0x7fffffffffffffff else '%dUL' % (v & 0xffffffffffffffff)
    P = []
    for i in range(10 if quick else 60):
        L = ['int printf(const char *, ...);', 'struct W { char pad[%d]; long m; char q[%d]; int z; } w;' % (rng.choice([127, 128, 32767, 32768, 70000]), rng.choice([1, 129, 40000]))]
        cases = sorted({rng.choice(EDGE) + rng.randint(-2, 2) for _ in range(rng.randint(2, 7))})
        L.append('static int sw(long x) { switch (x) { ' + ' '.join('case %dL: return %d;' % (c, j + 1) for j, c in enumerate(cases) if c <= 0x7fffffffffffffff)
                 + ' case -%dL ... -%dL: return 90;' % (cases[0] + 9, cases[0] + 5) + ' default: return 0; } }')
        ucases = sorted({(rng.choice(EDGE) * rng.choice([1, 2]) + rng.randint(0, 2)) & 0xffffffffffffffff for _ in range(rng.randint(2, 5))})
        L.append('static int swu(unsigned long x) { switch (x) { ' + ' '.join('case %dUL: return %d;' % (c, j + 1) for j, c in enumerate(ucases)) + ' default: return 0; } }')
        L.append('static int swi(unsigned x) { switch (x) { ' + ' '.join('case %dU: return %d;' % (c & 0xffffffff, j + 1) for j, c in enumerate(sorted({c & 0xffffffff for c in ucases}))) + ' default: return 0; } }')
        wf, wg = rng.randint(31, 34), rng.randint(33, 64)
        L.append('struct B { long f : %d; unsigned long g : %d; unsigned h : %d; } b;' % (wf, wg, rng.choice([31, 32])))
        body = ['volatile long v = %s; volatile unsigned long u = %s; volatile int n = %d; long r = 0; unsigned long ur = 0; long arr[4] = {1, 2, 3, 4}; long *p = arr + 2; char *cp = (char *)arr;' % (K(), K(False), rng.choice([1, 31, 32, 33, 63]))]
        for j in range(rng.randint(6, 14)):
            k = rng.randrange(12)
            if k == 0: body.append('r += v %s %s;' % (rng.choice(['+', '-', '*', '&', '|', '^']), K()))
            elif k == 1: body.append('ur += u %s %s;' % (rng.choice(['+', '-', '*', '&', '|', '^', '/', '%']), K(False).replace('0UL', '3UL') if rng.random() < 0.1 else '%dUL' % (rng.choice(EDGE) + 1)))
            elif k == 2: body.append('r += (v %s %s);' % (rng.choice(['<', '<=', '==', '!=', '>', '>=']), K()))
            elif k == 3: body.append('r += (p + %s - %s == p) + (cp + %s - %s == cp);' % ((lambda c: (c, c))('%dL' % rng.choice([0x10000000, 0x0fffffff, 0x20000000, 0x7fffffff])) + (lambda c: (c, c))('%dL' % rng.choice(EDGE[6:13]))))
            elif k == 4: body.append('v %s= %s;' % (rng.choice(['+', '-', '&', '|', '^']), K()))
            elif k == 5: body.append('r += v << %d; ur += u >> %d; r += (long)(%s) >> n;' % (rng.choice([0, 1, 31, 32, 33, 63]), rng.choice([0, 1, 31, 32, 33, 63]), K()))
            elif k == 6: body.append('b.f = %s; b.g = %s; b.h = %dU; r += b.f; ur += b.g + b.h;' % (K(), K(False), rng.choice(EDGE[:11])))
            elif k == 7: body.append('r += sw(%s) + swu(%s) + swi(%dU);' % ('%dL' % rng.choice(cases) if cases[-1] <= 0x7fffffffffffffff else '1L', '%dUL' % rng.choice(ucases), rng.choice(ucases) & 0xffffffff))
            elif k == 8: body.append('w.m = %s; w.z = n; w.q[%d] = 1; r += w.m + w.z + (long)((char *)&w.z - (char *)&w);' % (K(), 0))
            elif k == 9: body.append('r += (v > %s ? %s : %s);' % (K(), K(), K()))
            elif k == 10: body.append('r += (int)%s + (short)%s + (unsigned char)%s + (long)(unsigned)%s + (long)(int)u;' % (K(), K(), K(), K()))
            else: body.append('{ long t[3] = {%s, %s, %s}; r += t[n & 1]; }' % (K(), K(), K()))
        L.append('int main(void) { ' + '\n  '.join(body) + '\n  printf("%ld %lu\\n", r, ur); return 0; }')
        P.append(('immediates-%d' % i, '\n'.join(L) + '\n'))
    return P

def main():
    run = Run(PID, THEOREMS)
    rng = run.rng
    try:
        src = build_impl()
    except BuildFailed as e:
        run.proof_broken.append('scratch build of /repo failed: ' + str(e)[-800:])
        return run.finish(dict(evaluations=0), [], [])
    wd = scratch_dir()
    run.check_proofs(deps=['theories/Proofs/DiagProofs.vo'])
    NCORPUS = run_corpus(run, PID, src)          # minimised past failures first
    rc, o, e = sh([os.path.join(VERIF, 'ocaml/build.sh')], timeout=900)
    chibi = os.path.join(src, 'chibicc')
    evals = 0; nontriv = 0; dist = {}; samples = []
    def count(k, n=1): dist[k] = dist.get(k, 0) + n
    seeds = list(SEEDS)
    for f in sorted(glob.glob(os.path.join(src, 'test', '*.c')))[:: (6 if run.quick() else 2)]:
        t = open(f, errors='replace').read()
        if len(t) < 6000: seeds.append('#include "test.h"\n' + '\n'.join(l for l in t.split('\n') if not l.startswith('#include "test.h"')))
    import check_c03, check_c09
    for k in range(6): seeds.append(check_c03.TraceGen(rng).program()); seeds.append(check_c09.Gen(rng, exotic=True).program())

    def cc1(f, extra=()):
        out = f + '.s'
        cmd = [chibi, '-cc1', '-I' + os.path.join(src, 'test'), '-I' + os.path.join(src, 'include'), '-I/usr/local/include', '-I/usr/include/x86_64-linux-gnu', '-I/usr/include', '-cc1-input', f, '-cc1-output', out] + list(extra) + [f]
        t0 = time.time(); rc, o, e = sh(cmd, timeout=20)
        return rc, e, out, time.time() - t0
    def judge(f, text, rc, err, out):
        """returns None if the outcome is one the property allows, else a description"""
        if rc == 124: return 'hang (no answer within 20 s)'
        if rc < 0 or rc >= 128: return 'killed by signal %d' % (-rc if rc < 0 else rc - 128)
        if 'internal error' in err: return 'internal error reported'
        if rc == 0:
            r2, o2, e2 = sh(['as', '-o', '/dev/null', out], timeout=60)
            return None if r2 == 0 else 'exit 0 but the assembler rejects the output: ' + e2.strip().split('\n')[-1][:160]
        if rc != 1: return 'exit status %d' % rc
        first = err.split('\n')[0] if err else ''
        m = re.match(r'(.+?):(\d+): ', first)
        if not err.strip(): return 'exit 1 without any message'
        if not m: return 'diagnostic without file:line (%s)' % first[:120]
        fn, ln = m.group(1), int(m.group(2))
        if fn == '<built-in>' or fn == '<command line>': return None
        if not os.path.exists(fn):
            # a name given by a #line directive of the input denotes the input
            if re.search(r'#\s*(?:line\s+)?\d+\s*"%s"' % re.escape(fn), text) or any(re.search(r'#\s*(?:line\s+)?\d+\s*"%s"' % re.escape(fn), open(h, errors='replace').read()) for h in glob.glob(os.path.join(os.path.dirname(chibi), 'test', '*.h'))): return None
            return 'diagnostic names a file that does not exist: ' + fn
        raw = open(fn, 'rb').read()
        nlines = raw.count(b'\n') + len(re.findall(rb'\r(?!\n)', raw)) + 1      # physical lines: LF, CR LF, lone CR (C18)
        if re.search(r'(?m)^[ \t]*#[ \t]*(?:line\b|\d)', text): return None if ln >= 1 else 'diagnostic names line %d' % ln      # a #line directive / line marker in the input: the presumed number (C18) need not be a physical line
        if not 1 <= ln <= nlines + 1: return 'diagnostic names line %d of %s, which has %d lines' % (ln, os.path.basename(fn), nlines)
        return None

    # ---------------- (b) + (a): mutants ----------------
    N = 400 if run.quick() else 5000
    jobs = []
    for k in range(N):
        base = rng.choice(seeds)
        text = mutate(rng, base) if k % 10 else base
        f = os.path.join(wd, 'm%d.c' % k); open(f, 'w', encoding='latin-1', errors='replace').write(text); jobs.append((f, text, 'mutant'))
    # benign edits of accepted seeds
    for k, base in enumerate([b for b in seeds if 'int main' in b and '#define F' not in b][:12]):
        f0 = os.path.join(wd, 'b%d_base.c' % k); open(f0, 'w').write(base)
        if cc1(f0)[0] != 0: continue          # only programs chibicc accepts are "accepted seeds"
        t = base
        for a, b in rng.sample(BENIGN, 3): t = t.replace(a, b, rng.randint(1, 5))
        f = os.path.join(wd, 'b%d.c' % k); open(f, 'w').write(t); jobs.append((f, t, 'benign:' + str(k)))
    # constant expressions on which the host's own arithmetic would trap or is undefined: the evaluator must answer, not die
    MIN64 = '(-9223372036854775807L - 1)'; MIN32 = '(-2147483647 - 1)'
    traps = ['%s %s %s' % (a, op, b) for a in (MIN64, MIN32, '(-9223372036854775807 - 1)') for op in ('/', '%') for b in ('-1', '-1L', '(-1)', '0', '0L')]
    traps += ['1 << 64', '1 << -1', '1L << 63', '1 >> 64', '-1 >> 65', '1 / (1 - 1)', '5 % (2 - 2)', '0x7fffffffffffffff + 1', '%s - 1' % MIN64, '%s * -1' % MIN64, '-%s' % MIN64, '18446744073709551615u / 0u', '(unsigned char)300 / (char)0']
    tk = 0
    for e in traps:
        for ctx in ('long g = %s;\n', 'enum { E = %s };\n', 'int a[(%s) ? 1 : 1];\n', 'int f(int x) { switch (x) { case %s: return 1; } return 0; }\n', '#if %s\nint y;\n#endif\nint z;\n', 'struct S { int b : (%s) ? 1 : 1; };\n', '_Static_assert((%s) || 1, "x");\n', 'int h(void) { static long s = %s; return (int)s; }\n'):
            if ctx.startswith('#if'): e2 = e.replace('L', '').replace('(unsigned char)300', '300').replace('(char)0', '0')
            else: e2 = e
            f = os.path.join(wd, 'trap%d.c' % tk); tk += 1; t = ctx % e2; open(f, 'w').write(t); jobs.append((f, t, 'trap'))
    # valid programs that are large in one dimension (table growth, tombstones, recursion depth, list and token length): must be accepted
    for name, t in scale_programs(rng, run.quick()) + immediate_programs(rng, run.quick()):
        f = os.path.join(wd, 'scale_%s.c' % name); open(f, 'w').write(t); jobs.append((f, t, 'scale:' + name))
    # raw byte strings for the lexer model
    for k in range(60 if run.quick() else 600):
        n = rng.randint(1, 60)
        text = ''.join(rng.choice(['a', 'b', '1', ' ', '.', '+', '-', 'e', '"', "'", '/', '*', '\n', '<', '>', '=', 'x', '0', '(', ')', '{', '}', ';', '@', '`', '$', '\t', '\r', '\x7f', '\xc3\xa9', '%']) for _ in range(n))
        f = os.path.join(wd, 'r%d.c' % k); open(f, 'w', encoding='latin-1').write(text); jobs.append((f, text, 'bytes'))
    def one(j):
        f, text, kind = j
        rc, err, out, dt = cc1(f)
        verdict = judge(f, text, rc, err, out)
        lexm = None
        if kind == 'bytes':
            r2, o2, e2 = sh([MODELRUN, 'lines', f], timeout=60); lexm = 'reject' if o2.strip() == 'LEXERR' else 'accept'
            r3, o3, e3 = sh([chibi, '-E', '-verif-dump-raw-tokens', f], timeout=20)
            lexi = 'accept' if r3 == 0 else 'reject' if r3 == 1 else 'crash %d' % r3
            return j, rc, err, verdict, (lexm, lexi)
        return j, rc, err, verdict, None
    accepted_seed = {}
    for (f, text, kind), rc, err, verdict, lex in pmap(one, jobs):
        evals += 1; nontriv += 1
        count('%s-%s' % (kind.split(':')[0], 'accepted' if rc == 0 else 'diagnosed' if rc == 1 else 'other'))
        if verdict:
            run.violation(dict(kind='bad-answer', what=verdict, input=text[:4000], exit=rc, stderr=err[:400],
                               input_bytes=len(text), family=kind, how='chibicc -cc1 -I<test> -I<include> ... -cc1-input <file> -cc1-output <file>.s <file> (the front end run directly), then `as` on the output'),
                          dict(area='robustness', construct=re.sub(r'[^a-z ]', '', verdict.lower())[:30].strip(), includes_itself=bool(re.search(r'#[ \t]*include[ \t]+__FILE__', text))))
        if lex and lex[0] != lex[1]:
            run.corr_broken.append('lexer outcome class of %s: model %s, chibicc %s' % (os.path.basename(f), lex[0], lex[1])); write_replay(PID, 'lex_' + os.path.basename(f), text)
        if kind.startswith('scale') and rc != 0 and not verdict:
            r2, o2, e2 = sh(['gcc', '-fsyntax-only', '-w', '-std=gnu11', f], timeout=120)
            if r2 != 0: run.corr_broken.append('scale program %s is rejected by gcc too: %s' % (kind, e2[-200:]))
            else: run.violation(dict(kind='valid-program-rejected', family=kind, input_head=text[:300], input_bytes=len(text), stderr=err[:400], how='a valid program that is large in one dimension (%s); gcc accepts it' % kind[6:]), dict(area='acceptance', construct=kind))
        if kind.startswith('benign') and rc != 0:
            run.violation(dict(kind='meaning-preserving-edit-rejected', input=text, stderr=err[:400]), dict(area='acceptance', construct='benign-edit'))

    # ---------------- tokens that end exactly at the end of a scratch buffer (paste results, -D values) ----------------
    TOKS = ['0x1e', '0xfe', '0x1E', '0x1p', '1e', '0xabcP', '12', '1.5', '0x1p3', '1e3', 'abc', 'x_1', '07', '0b1' , '1u', '1UL', '0x7fe']
    lines = ['int printf(const char *, ...);', '#define CAT(a, b) a##b', '#define STR2(x) #x', '#define STR(x) STR2(x)', 'int main(void) {']
    dopts = []
    for i, t in enumerate(TOKS):
        cut = rng.randint(1, len(t) - 1) if len(t) > 1 else 1
        a, b = t[:cut], t[cut:]
        if b and not (b[0].isdigit() and not a): lines.append('  printf("%%s\\n", STR(CAT(%s, %s)));' % (a, b))
        dopts += ['-DD%d=%s' % (i, t)]
        lines.append('  printf("%%s\\n", STR(D%d));' % i)
        if t in ('0x1e', '0xfe', '0x1E', '12', '1.5', '0x1p3', '1e3', '07', '0b1', '1u', '1UL', '0x7fe'):       # usable as constants: the value must come out too
            lines.append('  printf("%%ld\\n", (long)(D%d));' % i)
            if b and not (b[0].isdigit() and not a): lines.append('  printf("%%ld\\n", (long)(CAT(%s, %s)));' % (a, b))
    lines.append('  return 0; }')
    f = os.path.join(wd, 'eob.c'); open(f, 'w').write('\n'.join(lines) + '\n')
    outs = []
    for cc in ([chibi], ['gcc', '-w']):
        rc, o, e = sh(cc + dopts + ['-o', f + '.exe', f], timeout=60)
        if rc == 0: rc, o, e = sh([f + '.exe'], timeout=20)
        outs.append((rc, o, e))
    evals += 1; nontriv += 1; count('end-of-buffer-tokens')
    if outs[1][0] != 0: run.corr_broken.append('end-of-buffer program fails under gcc: ' + outs[1][2][-200:])
    elif outs[0][0] != 0 or outs[0][1] != outs[1][1]:
        run.violation(dict(kind='valid-program-rejected' if outs[0][0] != 0 else 'wrong-token', program=open(f).read(), options=dopts, chibicc=(outs[0][1] or outs[0][2])[:600], gcc=outs[1][1][:600],
                           how='tokens produced by ## and by -D end exactly at the end of their buffer'), dict(area='acceptance', construct='end-of-buffer'))

    # ---------------- (c) the driver reports a front end that died ----------------
    f = os.path.join(wd, 'ok.c'); open(f, 'w').write('int main(void) { return 0; }\n')
    # simulate a dying front end: a chibicc copy whose -cc1 child kills itself is not available without editing the code; use the resource limit instead
    rc, o, e = sh('ulimit -v 20000; %s -c -o /dev/null %s' % (chibi, f), timeout=60)
    evals += 1; count('driver-under-memory-limit')
    if rc == 0: count('driver-limit-not-reached')
    elif not (o + e).strip():
        run.violation(dict(kind='driver-silent-failure', exit=rc, how='ulimit -v 20000; chibicc -c ok.c: the driver exits %d and prints nothing' % rc), dict(area='driver', construct='silent'))

    cov = dict(evaluations=evals, distinct_nontrivial=nontriv, input_distribution=dist, samples=samples,
               rule='%d inputs: token-level edits (delete / replace / insert / duplicate / swap / cut, plus injection of brackets, quotes, directive names, malformed numbers, stray bytes) of %d seed programs (hand-written feature-dense programs, the bundled tests, generated control-flow and macro programs), meaning-preserving edits of accepted seeds, and random byte strings; each answered by the front end run directly: exit 0 + assembler accepts, or exit 1 + first stderr line names an existing file and line; no signal, internal error, hang or silence; lexer model accept/reject = implementation on the byte strings' % (len(jobs), len(seeds)),
               traces_validated_against_impl=nontriv)
    return run.finish(cov,
        ['the assembler is the system `as`; a diagnostic in <built-in> or <command line> is accepted as located',
         'acceptance of every conforming program cannot be decided here: only meaning-preserving edits of accepted programs are required to be accepted'],
        ['Coq 8.16.1 kernel, no axioms', 'Model/Diag.v (verror_at), Model/Lexer.v', 'that the C code itself never crashes or hangs is NOT provable in this framework (Gallina models are total by construction): the mutation run is a search, and its findings are the evidence; the proof part covers the correctness of the location shown and the totality/error branch of the lexer model, tied by outcome-class correspondence'])

if __name__ == '__main__':
    sys.exit(main())
