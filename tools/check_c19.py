#!/usr/bin/env python3
"""C19 - preprocessed output is a faithful program.
   proofs (a separator always separates, for every token kind; spaced text re-lexes to itself;
   sweep of the punctuator pairs of the regenerated table) + translator (punctuator table) +
   correspondence: (a) the lexer model against chibicc's tokenizer (token dump hook) on
   generated texts and the repository's own files, (b) for generated macro programs the token
   sequence the compiler proper consumes (dump after preprocessing) = the tokens of the -E text,
   -E is idempotent, and compiling the -E output gives the same assembly."""
import os, sys, time, random, json, re, glob
sys.path.insert(0, os.path.dirname(os.path.abspath(__file__)))
from vlib import *
import gen_punct

PID = 'C19'
THEOREMS = ['C19_separator_separates', 'C19_relex_spaced', 'C19_punctuator_pairs', 'C19_nonvacuous',
            # package eprint (Properties_C19_eprint.v): print_tokens modelled; its output re-lexes (after phases 1-2) to exactly the tokens it was given (any list), idempotence
            'C19_eprint_tokenizer_output_printable', 'C19_eprint_plain_text_roundtrip', 'C19_eprint_cut', 'C19_eprint_printable_decidable', 'C19_eprint_glued_pair_sound', 'C19_eprint_roundtrip', 'C19_eprint_same_tokens', 'C19_eprint_hash_at_line_start', 'C19_eprint_survives_phases_1_2', 'C19_eprint_reread', 'C19_eprint_faithful', 'C19_eprint_leading_hash_always_refuted', 'C19_eprint_leading_hash_refuted', 'C19_eprint_print_of_read', 'C19_eprint_idempotent', 'C19_eprint_nonvacuous', 'C19_eprint_nonvacuous_mixed', 'C19_eprint_nonvacuous_backslash', 'C19_eprint_nonvacuous_bom', 'C19_eprint_not_printable']
MODELRUN = os.path.join(VERIF, 'ocaml/modelrun')

def dump(chibi, f, raw, extra=()):
    rc, out, err = sh([chibi, '-verif-dump-raw-tokens' if raw else '-verif-dump-tokens', '-E', f] + list(extra), timeout=60)
    if rc != 0: return None, err
    toks = []
    for l in out.strip().split('\n'):
        if not l: continue
        p = l.split(' ')
        toks.append((p[0], p[1], p[2], p[5] if len(p) > 5 else ''))
    return toks, ''

def model_lex(f):
    rc, out, err = sh([MODELRUN, 'lex', f], timeout=120)
    if out.strip() == 'LEXERR': return None
    return [tuple((l.split(' ') + [''])[:4]) for l in out.strip().split('\n') if l]

def main():
    run = Run(PID, THEOREMS)
    rng = run.rng
    try:
        src = build_impl()
    except BuildFailed as e:
        run.proof_broken.append('scratch build of /repo failed: ' + str(e)[-800:])
        return run.finish(dict(evaluations=0), [], [])
    wd = scratch_dir()
    tables = None
    try:
        tables = gen_punct.gen(REPO, os.path.join(COQ, 'theories/Gen/PunctTable.v'))
    except GenError as e:
        run.proof_broken.append('translator: ' + str(e))
    run.check_proofs(deps=['theories/Model/Lexer.vo', 'theories/Proofs/LexerProofs.vo'], extra=['eprint'])
    NCORPUS = run_corpus(run, PID, src)          # minimised past failures first
    rc, o, e = sh([os.path.join(VERIF, 'ocaml/build.sh')], timeout=900)
    if rc != 0:
        run.corr_broken.append('extracted model does not build: ' + (o + e)[-300:])
        return run.finish(dict(evaluations=0), [], [])
    chibi = os.path.join(src, 'chibicc')
    rc, o, e = sh([MODELRUN, 'fusing'])
    fusing = set(tuple(bytes.fromhex(x).decode() for x in l.split()) for l in o.strip().split('\n') if l)
    puncts = (tables or {}).get('puncts', []) + [c for c in '!#%&()*+,-./:;<=>?@[\\]^`{|}~']
    evals = 0; nontriv = set(); samples = []

    # ---------- token pool ----------
    idents = ['a', 'b1', 'x_y', 'u8', 'L', 'u', 'U', 'e', 'p', 'E5', '_z', 'int', 'x$']
    nums = ['0', '1', '12', '1e', '0x1p', '1.', '.5', '1e+', '0x1P-', '0xe', '3u', '1.e', '08', '0b1']
    lits = ['"s"', '"a b"', 'u8"z"', 'L"w"', 'u"q"', 'U"r"', "'c'", "L'd'", "u'e'", "'\\''", '"\\""', '"\\\\"']
    pool = idents + nums + lits + [p for p in puncts if p not in ('#', '##', '\\', '@', '`')]
    kind_of = lambda t: 'i' if t in idents else 'n' if t in nums else 'l' if t in lits else 'p'
    def may_touch(a, b):
        """can a and b be written adjacent in SOURCE text and still be read as a then b?"""
        ka, kb = kind_of(a), kind_of(b)
        if ka == 'p' and kb == 'p': return (a, b) not in fusing and not (a + b).startswith('//') and '/*' not in (a + b)
        if ka in 'in' and kb in 'in': return False
        if ka == 'n' and (b[0] in '.+-' or kb == 'l'): return False        # pp-number swallows . and e+ ; 1"x" is fine for cpp but keep apart
        if ka == 'p' and a[-1] == '.' and kb == 'n': return False
        if ka == 'i' and kb == 'l': return False                            # u8"..." / L'..' prefixes
        if kb == 'p' and b[0] == '.' and ka == 'n': return False
        if ka == 'p' and a[-1] in '+-' and kb == 'n': return True
        return True
    def write_tokens(ts):
        out = ''
        for i, t in enumerate(ts):
            if i and (not may_touch(ts[i - 1], t) or rng.random() < 0.4): out += rng.choice([' ', ' ', '\t', '  ', ' /* c */ '])
            out += t
        return out

    # ---------- (a) lexer model vs tokenizer ----------
    texts = []
    for i in range(60 if run.quick() else 600):
        lines = []
        for _ in range(rng.randint(1, 6)):
            lines.append(write_tokens([rng.choice(pool) for _ in range(rng.randint(1, 14))]) + rng.choice(['', ' // tail', '   ']))
        texts.append('\n'.join(lines) + '\n')
    files = []
    for i, t in enumerate(texts):
        f = os.path.join(wd, 'lx%d.c' % i); open(f, 'w').write(t); files.append(f)
    own = sorted(glob.glob(os.path.join(src, '*.c')) + glob.glob(os.path.join(src, 'test', '*.c')))
    for f in own:
        data = open(f, 'rb').read()
        if b'\\\n' in data or b'\\u' in data or b'\\U' in data or b'\r' in data: continue      # phases 1-2 are C18's model
        if len(data) > (6000 if run.quick() else 16000): continue                          # the extracted lexer is quadratic (unary lengths)
        files.append(f)
    def one_lex(f):
        a, err = dump(chibi, f, True)
        b = model_lex(f)
        return f, a, b, err
    for f, a, b, err in pmap(one_lex, files):
        evals += 1
        if a is None and b is None: continue
        if a != b:
            d = next((i for i in range(min(len(a or []), len(b or []))) if a[i] != b[i]), min(len(a or []), len(b or [])))
            run.corr_broken.append('tokenizer and lexer model differ on %s at token %d: tokenizer %s, model %s %s' % (
                os.path.basename(f), d, (a or ['ERROR'])[d:d + 1], (b or ['ERROR'])[d:d + 1], err[-100:]))
            write_replay(PID, 'lexer_' + os.path.basename(f), open(f, 'rb').read().decode(errors='replace'))
    # ---------- (b) -E faithfulness on macro programs ----------
    def gen_macro_program():
        lines = []; names = []
        for k in range(rng.randint(2, 6)):
            n = 'M%d' % k
            body = [rng.choice(pool) for _ in range(rng.randint(0, 3))]
            body = [names[rng.randrange(len(names))] if names and rng.random() < 0.2 else t for t in body]
            if rng.random() < 0.4:
                lines.append('#define %s(x%s) %s' % (n, ', y' if rng.random() < 0.5 else '', write_tokens([rng.choice(['x', 'x', 'y']) if rng.random() < 0.5 else t for t in body] or ['x'])))
                names.append(n + '(')
            else:
                lines.append('#define %s %s' % (n, write_tokens(body)))
                names.append(n)
        def use():
            m = rng.choice(names)
            if m.endswith('('):
                nargs = 2 if ', y)' in [l for l in lines if l.startswith('#define ' + m)][0] else 1
                return m + ','.join(write_tokens([rng.choice(pool) for _ in range(rng.randint(0, 2))]) for _ in range(nargs)).replace('(', ' ').replace(')', ' ') + ')'
            return m
        for _ in range(rng.randint(2, 5)):
            parts = []
            for _ in range(rng.randint(2, 9)):
                parts.append(use() if rng.random() < 0.45 else rng.choice(pool))
            line = ''
            for i, t in enumerate(parts):
                if i:
                    prev = parts[i - 1]
                    pm, tm = prev.startswith('M'), t.startswith('M')
                    glue = (pm or tm or may_touch(prev, t)) and rng.random() < 0.6
                    if (pm and not prev.endswith(')')) and (t[0].isalnum() or t[0] in '_$(' or t[0] == '"' or t[0] == "'"): glue = False   # would change the macro name / make it a call
                    if (not pm) and tm and (prev[-1].isalnum() or prev[-1] in '_$.'): glue = False
                    if not glue: line += ' '
                line += t
            lines.append(line)
        return '\n'.join(lines) + '\n'
    nprog = 150 if run.quick() else 1500
    progs = []
    for i in range(nprog):
        f = os.path.join(wd, 'mp%d.c' % i); open(f, 'w').write(gen_macro_program()); progs.append(f)
    # a '#' that results from macro replacement is an ordinary token (6.10.3.4p3): at the beginning of a line, after tokens, through a function-like macro
    for i in range(12 if run.quick() else 60):
        ls = ['#define H #', '#define EMPTY', '#define ID(x) x', '#define H2 H define', 'int a%d;' % i]
        for _ in range(rng.randint(2, 6)):
            ls.append(rng.choice(['H define X%d 1', 'ID(H) define Y%d 2', 'EMPTY # define Z%d 3', 'H2 W%d 4', 'int b%d; H define V%d 5', 'H', 'H include "nonexistent.h"', 'ID(#) undef X%d', 'X%d Y%d Z%d', 'EMPTY EMPTY H if 0']) .replace('%d', str(rng.randint(0, 3))))
        ls.append('X0 Y0 Z0 W0 V0')
        f = os.path.join(wd, 'hp%d.c' % i); open(f, 'w').write('\n'.join(ls) + '\n'); progs.append(f)
    # tokens whose position at the END of an output line matters to translation phases 1-2 of the reader: a stray backslash (followed in the
    # source by a comment, by a macro that expands to nothing, coming out of a macro argument), an identifier starting with U+FEFF first
    for i, body in enumerate(['int a; 1 \\ /* c */\nint b;\n', '#define E\nx \\ E\ny\n', '#define ID(x) x\nID(\\)\nz ID(\\) \nw\n', '\\ \n\\ \nq\n', 'a \\ b \\\t/**/\nc\n', '#define E\nE \\ E\n',
                              '#define L(x) x \\ E\n#define E\nL(1)\nL(2) 3\n', 'p \\ // c\nq\n', '\ufeffid = 1;\n', '#define F \ufeffz\nF F\n', 'x \\  \n  \\\n']):
        f = os.path.join(wd, 'eol%d.c' % i); open(f, 'w', encoding='utf-8').write(body); progs.append(f)
    # known finding probe: the same token as the very first token of the output has no line to be appended to
    flead = os.path.join(wd, 'leading_hash.c'); open(flead, 'w').write('#define H #\nH define X 1\nX\n'); progs.append(flead)
    def one_prog(f):
        pp, err = dump(chibi, f, False)                       # what the compiler proper consumes
        if pp is None: return f, 'skip', err                   # the generator may produce preprocessing errors (bad invocations): not this property
        e1 = f + '.i'
        rc, out, err = sh([chibi, '-E', '-o', e1, f], timeout=60)
        if rc != 0: return f, 'E-fails', err
        raw, err = dump(chibi, e1, True)                      # tokens of the -E text
        if raw is None: return f, 'E-output-does-not-lex', err
        if [t[3] for t in raw] != [t[3] for t in pp]:
            d = next((i for i in range(min(len(raw), len(pp))) if raw[i][3] != pp[i][3]), min(len(raw), len(pp)))
            h = lambda l: [bytes.fromhex(x[3]).decode(errors='replace') for x in l[max(0, d - 2):d + 3]]
            return f, 'tokens-differ', 'at token %d: compiler consumes %s, -E text reads %s' % (d, h(pp), h(raw))
        e2 = f + '.ii'
        rc, out, err = sh([chibi, '-E', '-o', e2, e1], timeout=60)
        if rc != 0 or open(e1).read() != open(e2).read(): return f, 'not-idempotent', err
        return f, 'ok', ''
    skipped = 0
    for f, st, info in pmap(one_prog, progs):
        evals += 1
        if st == 'skip': skipped += 1; continue
        nontriv.add(f)
        if st != 'ok':
            text = open(f).read()
            run.violation(dict(kind='E-output-' + st, detail=info[-400:], program=text, e_output=open(f + '.i').read() if os.path.exists(f + '.i') else None,
                               replay='chibicc -E prog.c > prog.i; compare the tokens of prog.i with the tokens the compiler consumes'),
                          dict(area='E-output', what=st, construct='leading-hash' if f == flead else 'macro-program'))
    if progs: samples.append({'macro-program': open(progs[0]).read()[:400]})
    # ---------- (c) compile equivalence on valid programs ----------
    valid = '''#define N -1
#define P +
#define E
#define F(x) x+1
#define CAT(a, b) a ## b
#define S(x) #x
int f(int a, int b) { int c = -N; int d = 1 P+ 2; int e = a -E- b; int g = F(2)*3; int h = a+++b; int i = CAT(1, 2); char *s = S(a  +  b) "x" "y";
  double z = 1.5 + .5e+1; return c + d + e + g + h + i + s[0] + (int)z - a--- -b; }
'''
    f = os.path.join(wd, 'valid.c'); open(f, 'w').write(valid)
    strip = lambda t: '\n'.join(l for l in t.split('\n') if not l.strip().startswith('.loc') and not l.strip().startswith('.file'))
    rc1, s1, e1 = sh([chibi, '-S', '-o', '-', f]); rc2, pp, e2 = sh([chibi, '-E', '-o', os.path.join(wd, 'valid.i'), f])
    rc3, s2, e3 = sh([chibi, '-S', '-o', '-', '-xc', os.path.join(wd, 'valid.i')]); evals += 1
    if rc1 or rc2 or rc3 or strip(s1) != strip(s2):
        run.violation(dict(kind='compile-of-E-output-differs', exits=[rc1, rc2, rc3], stderr=(e1 + e2 + e3)[-300:], program=valid,
                           e_output=open(os.path.join(wd, 'valid.i')).read() if os.path.exists(os.path.join(wd, 'valid.i')) else None), dict(area='E-compile'))
    # ---------------- tie of package eprint: the printer model against the real -E output and the token dump ----------------
    tie_dist = {}; tie_nontriv = 0
    if not os.environ.get('VERIF_SKIP_PROOFS'):
        te, tie_nontriv, tie_dist, ts = run_tie(run, 'eprint', src, 150 if run.quick() else 1500, 'E-output')
        evals += te; samples += ts
    cov = dict(evaluations=evals, distinct_nontrivial=len(nontriv),
               rule='(a) random token texts over identifiers, pp-number shapes (1e, 0x1p, 1., .5, 1e+ ...), literals with every prefix and all punctuators, with random spacing/comments, plus the repository sources: tokenizer dump = lexer model (kind, at_bol, has_space, spelling); (b) random macro programs (object-like and function-like macros with 0-3 token bodies, nested uses) gluing tokens without white space wherever the SOURCE allows it: tokens consumed by the compiler proper = tokens of the -E text, and -E is idempotent; programs whose preprocessing is itself an error are skipped (%d); (c) a valid program compiled directly and via its -E output; non-trivial = a macro program that preprocesses' % skipped,
               samples=samples, traces_validated_against_impl=len(files), fusing_pairs=len(fusing), skipped_invalid=skipped)
    cov['rule'] = cov.get('rule', '') + ' (e) package eprint: boundary and random macro programs: bytes of chibicc -E = Coq model of print_tokens on the dumped token list; the -E text re-lexed by the Coq lexer model = the dumped tokens'; cov['tie_eprint'] = tie_dist; cov['distinct_nontrivial'] = cov.get('distinct_nontrivial', 0) + tie_nontriv
    return run.finish(cov,
        ['bytes >= 128 are identifier characters in the lexer model (UTF-8 decoding and the Annex D tables are C11\'s development); phases 1-2 (line splicing etc.) are C18\'s',
         'the token dump hook (-verif-dump-tokens, guarded by CHIBICC_VERIF) reports what the parser would receive'],
        ['Coq 8.16.1 kernel, no axioms (vm_compute for the punctuator sweeps)', 'tools/gen_punct.py (translator for read_punct / is_keyword tables)',
         'hand-written Model/Lexer.v tied to tokenize.c by the dump correspondence on generated texts and all repository sources',
         'macro expansion itself (which tokens end up adjacent) is C09\'s; here only the printing and re-lexing of whatever sequence results'])

if __name__ == '__main__':
    sys.exit(main())
