int printf(const char *, ...);
extern int e1;
int main(void) { printf("%d\n", e1); return e1 == 5 ? 0 : 1; }
