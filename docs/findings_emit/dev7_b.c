/* unit B has its own, unrelated external x */
int printf(const char *, ...);
int x = 7;
int get_a(void);
int main(void) { printf("%d %d\n", get_a(), x); return 0; }
