/* unit A: C11 6.9.2p1 - a file-scope declaration with an initializer is an external definition, with or without `extern` */
extern int e1 = 5;
