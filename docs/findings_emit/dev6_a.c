/* unit A (think: a header with two static inline helpers, included by a file that uses neither) */
static inline int a(void) { return 1; }
static inline int b(void) { static int (*p)(void) = a; return p(); }   /* b is never called: b and a are not emitted, but b's static p is */
int unit_a(void) { return 0; }
