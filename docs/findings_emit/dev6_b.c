int unit_a(void);
int main(void) { return unit_a(); }
