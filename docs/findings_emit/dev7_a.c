/* unit A: C11 6.2.2p4 - `extern` after a visible `static` declaration keeps the internal linkage; x is private to this unit */
static int x;
extern int x = 5;
int get_a(void) { return x; }
