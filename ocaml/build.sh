#!/bin/bash
# (re)build the extracted-model driver: extraction is re-run from the current Coq sources
set -e
cd "$(dirname "$0")"
mkdir -p gen
( cd gen && timeout 600 coqc -Q ../../coq/theories Chibicc ../../coq/theories/Extract/Extract.v )
cp modelrun.ml gen/
( cd gen && ocamlfind ocamlopt -O3 -w -a -package str modelext.mli modelext.ml modelrun.ml -o ../modelrun 2>/dev/null || ocamlfind ocamlopt -w -a modelext.mli modelext.ml modelrun.ml -o ../modelrun )
