#!/bin/bash
# (re)build the extracted-model driver: extraction is re-run from the current Coq sources
set -e
# sub-runs of the C12 check share one already built driver
[ -n "$VERIF_SKIP_MODELBUILD" ] && [ -x "$(dirname "$0")/modelrun" ] && exit 0
cd "$(dirname "$0")"
mkdir -p gen
( cd gen && timeout 600 coqc -Q ../../coq/theories Chibicc ../../coq/theories/Extract/Extract.v )
cp modelrun.ml gen/
( cd gen && ocamlfind ocamlopt -O3 -w -a -package str modelext.mli modelext.ml modelrun.ml -o ../modelrun 2>/dev/null || ocamlfind ocamlopt -w -a modelext.mli modelext.ml modelrun.ml -o ../modelrun )
