(* Driver around the extracted Coq models.  One sub-command per area.
   Only conversion at the boundary: OCaml int/string <-> extracted N / nat / lists. *)
open Modelext

let rec pos_of_int (i : int) : positive =
  if i = 1 then XH else if i land 1 = 0 then XO (pos_of_int (i lsr 1)) else XI (pos_of_int (i lsr 1))
let n_of_int (i : int) : n = if i = 0 then N0 else Npos (pos_of_int i)
let rec int_of_pos = function XH -> 1 | XO p -> 2 * int_of_pos p | XI p -> 2 * int_of_pos p + 1
let int_of_n = function N0 -> 0 | Npos p -> int_of_pos p
let rec int_of_nat = function O -> 0 | S k -> 1 + int_of_nat k
(* decimal string of an N of any size *)
let string_of_n (x : n) : string =
  let rec bits = function XH -> [1] | XO p -> 0 :: bits p | XI p -> 1 :: bits p in
  match x with N0 -> "0" | Npos p ->
    let bs = List.rev (bits p) in
    (* big decimal via repeated doubling on a digit list *)
    let dbl ds carry =
      let rec go ds c = match ds with
        | [] -> if c = 0 then [] else [c]
        | d :: r -> let v = 2 * d + c in (v mod 10) :: go r (v / 10) in go ds carry in
    let ds = List.fold_left (fun acc b -> dbl acc b) [] bs in
    String.concat "" (List.rev_map string_of_int ds)
let n_of_string (s : string) : n =
  (* decimal string -> N (any size) *)
  let z = ref N0 in
  String.iter (fun c ->
    let d = Char.code c - 48 in
    z := N.add (N.mul !z (n_of_int 10)) (n_of_int d)) s; !z

let bytes_of_hex (h : string) : n list =
  let l = String.length h / 2 in
  List.init l (fun i -> n_of_int (int_of_string ("0x" ^ String.sub h (2 * i) 2)))
let hex_of_bytes (b : n list) : string =
  String.concat "" (List.map (fun x -> Printf.sprintf "%02x" (int_of_n x)) b)

(* ---------------- hashmap ---------------- *)
let crash_name = function
  | Unreachable -> "unreachable" | AssertUsed -> "assert_used" | IntOverflow -> "int_overflow"
  | NestedRehash -> "nested_rehash" | GrowFuel -> "grow_fuel"

let dump_map (m : cmap) =
  let b = Buffer.create 1024 in
  Buffer.add_string b (Printf.sprintf "S used=%d cap=%d" (int_of_n m.used) (int_of_n (capacity m)));
  List.iter (fun s -> Buffer.add_char b ' ';
    match s with
    | Empty -> Buffer.add_char b 'E'
    | Tomb -> Buffer.add_char b 'T'
    | Full (k, v) -> Buffer.add_string b (hex_of_bytes k ^ ":" ^ string_of_int (int_of_n v))) m.buckets;
  print_endline (Buffer.contents b)

let hashmap_main () =
  let m = ref c_empty in
  (try while true do
    let line = input_line stdin in
    match String.split_on_char ' ' (String.trim line) with
    | ["H"; k] -> Printf.printf "H %s\n" (string_of_n (fnv (bytes_of_hex k)))
    | ["S"] -> dump_map !m
    | ["R"] -> m := c_empty; print_endline "R"
    | toks ->
      let o = match toks with
        | ["P"; k; v] -> Put (bytes_of_hex k, n_of_int (int_of_string v))
        | ["G"; k] -> Get (bytes_of_hex k)
        | ["D"; k] -> Del (bytes_of_hex k)
        | _ -> failwith ("bad op line: " ^ line) in
      (match c_step !m o with
       | Ok (m', out) -> m := m';
         (match out with
          | Some v -> Printf.printf "O %d\n" (int_of_n v)
          | None -> print_endline "O -")
       | Crash c -> Printf.printf "CRASH %s\n" (crash_name c))
  done with End_of_file -> ())

(* ---------------- unicode / literals ---------------- *)
let bytes_str l = String.concat " " (List.map (fun x -> string_of_int (int_of_n x)) l)

(* one line per code point in [lo,hi): encoder bytes | decoder result on them | utf16 units *)
let utf_main lo hi =
  let b = Buffer.create (1 lsl 20) in
  for c = lo to hi - 1 do
    let n = n_of_int c in
    let e = encode_utf8 n in
    let d = match decode_utf8 (e @ [n_of_int 65]) with
      | DecOk (c', rest) -> Printf.sprintf "%d+%d" (int_of_n c') (List.length rest)
      | DecErr -> "err" | DecPastEnd -> "pastend" in
    Buffer.add_string b (Printf.sprintf "%d: %s | %s\n" c (bytes_str e) d);
    if Buffer.length b > (1 lsl 20) then (print_string (Buffer.contents b); Buffer.clear b)
  done;
  print_string (Buffer.contents b)

let utf16_main () =
  (try while true do
    let c = int_of_string (String.trim (input_line stdin)) in
    Printf.printf "%d: %s\n" c (bytes_str (utf16_units (n_of_int c)))
  done with End_of_file -> ())

(* identifier classes: one character per code point in [lo,hi): 0 none, 1 cont only, 3 start+cont *)
let ident_main lo hi =
  let b = Buffer.create (hi - lo + 1) in
  for c = lo to hi - 1 do
    let n = n_of_int c in
    let v = (if is_ident1_m n then 2 else 0) + (if is_ident2_m n then 1 else 0) in
    Buffer.add_char b (Char.chr (48 + v))
  done;
  print_endline (Buffer.contents b)

let identspec_main lo hi =
  let b = Buffer.create (hi - lo + 1) in
  for c = lo to hi - 1 do
    let n = n_of_int c in
    let v = (if spec_ident_start n then 2 else 0) + (if spec_ident_cont n then 1 else 0) in
    Buffer.add_char b (Char.chr (48 + v))
  done;
  print_endline (Buffer.contents b)

let ity_name = function TInt -> "int" | TUInt -> "uint" | TLong -> "long" | TULong -> "ulong"
(* stdin lines: "<dec:0|1> <l:0|1> <u:0|1> <value decimal>"; output: "<model type> <spec type|none>" *)
let lit_main () =
  (try while true do
    let line = input_line stdin in
    match String.split_on_char ' ' (String.trim line) with
    | [d; l; u; v] ->
      let b x = x = "1" in
      let v = n_of_string v in
      Printf.printf "%s %s\n" (ity_name (lit_type (b d) (b l) (b u) v))
        (match c11_literal_type (b d) (b l) (b u) v with Some t -> ity_name t | None -> "none")
    | _ -> failwith ("bad line: " ^ line)
  done with End_of_file -> ())

(* ---------------- integer expressions (C01 / C07) ---------------- *)
let z_of_string (s : string) : z =
  if String.length s > 0 && s.[0] = '-' then
    (match n_of_string (String.sub s 1 (String.length s - 1)) with N0 -> Z0 | Npos p -> Zneg p)
  else (match n_of_string s with N0 -> Z0 | Npos p -> Zpos p)
let string_of_z = function Z0 -> "0" | Zpos p -> string_of_n (Npos p) | Zneg p -> "-" ^ string_of_n (Npos p)
let ity_of_string = function "bool" -> IBool | "i8" -> I8 | "u8" -> U8 | "i16" -> I16 | "u16" -> U16
  | "i32" -> I32 | "u32" -> U32 | "i64" -> I64 | "u64" -> U64 | s -> failwith ("bad type " ^ s)
let string_of_ity = function IBool -> "bool" | I8 -> "i8" | U8 -> "u8" | I16 -> "i16" | U16 -> "u16"
  | I32 -> "i32" | U32 -> "u32" | I64 -> "i64" | U64 -> "u64"
let unop_of = function "neg" -> Neg | "not" -> BitNot | "lnot" -> LogNot | "plus" -> Plus | s -> failwith ("bad unop " ^ s)
let binop_of = function "add" -> Add | "sub" -> Sub | "mul" -> Mul | "div" -> Div | "mod" -> Mod | "and" -> BAnd
  | "or" -> BOr | "xor" -> BXor | "shl" -> Shl | "shr" -> Shr | "eq" -> OEq | "ne" -> ONe | "lt" -> OLt | "le" -> OLe
  | "gt" -> OGt | "ge" -> OGe | "land" -> LAnd | "lor" -> LOr | s -> failwith ("bad binop " ^ s)
(* prefix syntax: L ty val | U op e | B op e e | C ty e | Q e e e | M e e *)
let rec parse_expr toks = match toks with
  | "L" :: t :: v :: r -> (Lit (ity_of_string t, z_of_string v), r)
  | "U" :: o :: r -> let (a, r) = parse_expr r in (Un (unop_of o, a), r)
  | "B" :: o :: r -> let (a, r) = parse_expr r in let (b, r) = parse_expr r in (Bin (binop_of o, a, b), r)
  | "C" :: t :: r -> let (a, r) = parse_expr r in (Cast (ity_of_string t, a), r)
  | "Q" :: r -> let (c, r) = parse_expr r in let (a, r) = parse_expr r in let (b, r) = parse_expr r in (Cond (c, a, b), r)
  | "M" :: r -> let (a, r) = parse_expr r in let (b, r) = parse_expr r in (Comma (a, b), r)
  | _ -> failwith "bad expression"
(* per line: "<c11 type> <c11 value|UB> | <model type> <model value|err>" *)
let cexpr_main () =
  (try while true do
    let line = String.trim (input_line stdin) in
    let (e, _) = parse_expr (List.filter (fun s -> s <> "") (String.split_on_char ' ' line)) in
    Printf.printf "%s %s | %s %s\n" (string_of_ity (type_of e))
      (match eval e with Some v -> string_of_z v | None -> "UB")
      (string_of_ity (m_type e))
      (match m_eval e with Val v -> string_of_z v | ErrDivZero -> "err-div-zero" | ErrOverflow -> "err-overflow" | HostUB -> "host-ub")
  done with End_of_file -> ())

(* ---------------- integer code generation (C01) ---------------- *)
let string_of_chars (l : char list) : string = String.init (List.length l) (List.nth l)
let insns_text l = String.concat "; " (List.map (fun i -> string_of_chars (insn_text i)) l)
(* stdin: "cast <from> <to>" | "binop <op> <type>" | "unop <op> <type>"; stdout: the instructions the model emits *)
let codegen_main () =
  (try while true do
    let line = String.trim (input_line stdin) in
    (match List.filter (fun s -> s <> "") (String.split_on_char ' ' line) with
     | ["cast"; f; t] ->
       (match gen_cast cast_table (ity_of_string f) (ity_of_string t) with
        | Some l -> print_endline ("I " ^ insns_text l) | None -> print_endline "TEXT")
     | ["binop"; o; t] -> print_endline ("I " ^ insns_text (gen_binop (binop_of o) (ity_of_string t)))
     | ["unop"; o; t] -> print_endline ("I " ^ insns_text (gen_unop (unop_of o) (ity_of_string t)))
     | ["uac"; a; b] -> print_endline (string_of_ity (uac (ity_of_string a) (ity_of_string b)))
     | ["promote"; a] -> print_endline (string_of_ity (promote (ity_of_string a)))
     | _ -> failwith ("bad line: " ^ line))
  done with End_of_file -> ())

(* compile: stdin lines = an expression in prefix form; stdout: the instructions gen_expr emits for the whole tree according to
   Model/ExprGen.v + Model/ExprFlat.v (flatten), jump targets as instruction positions "@n" (C01, C03) *)
let compile_main () =
  let rec nat_int = function O -> 0 | S m -> 1 + nat_int m in
  let show = function
    | FIns i -> string_of_chars (insn_text i)
    | FImm v -> "mov $" ^ string_of_z v ^ ", %rax"
    | FPush -> "push %rax"
    | FPopRdi -> "pop %rdi"
    | FJz t -> Printf.sprintf "je @%d" (nat_int t)
    | FJnz t -> Printf.sprintf "jne @%d" (nat_int t)
    | FJmp t -> Printf.sprintf "jmp @%d" (nat_int t) in
  (try while true do
    let line = String.trim (input_line stdin) in
    let (e, _) = parse_expr (List.filter (fun s -> s <> "") (String.split_on_char ' ' line)) in
    print_endline (String.concat "; " (List.map show (gflatten (compile e) O)))
  done with End_of_file -> ())

(* ---------------- calling convention (C06) ---------------- *)
let rec nat_of_int i = if i <= 0 then O else S (nat_of_int (i - 1))
let rec z_of_int i = if i = 0 then Z0 else if i > 0 then Zpos (pos_of_int i) else Zneg (pos_of_int (-i))
(* aggregate syntax: s<flt 0|1> | a <esize> <n> <ty> | g <nmembers> (<offset> <ty>)* *)
let rec parse_aty toks = match toks with
  | "s" :: f :: r -> (ASc (f = "1"), r)
  | "a" :: esz :: n :: r -> let (e, r) = parse_aty r in (AArr (e, z_of_int (int_of_string esz), nat_of_int (int_of_string n)), r)
  | "g" :: n :: r ->
    let rec mems k r acc = if k = 0 then (List.rev acc, r) else
      (match r with o :: r -> let (m, r) = parse_aty r in mems (k - 1) r ((z_of_int (int_of_string o), m) :: acc) | _ -> failwith "bad agg") in
    let (ms, r) = mems (int_of_string n) r [] in (AAgg ms, r)
  | _ -> failwith "bad aty"
(* stdin: "regs <size> <aty>"  -> "<ngp> <nfp>"
          "place (I|F|L|S <ngp> <nfp> <words>|B <words>)*" -> one location per argument: R<gp>,<fp> or S<word>;
            three lines: psabi, caller (pop loop), callee *)
let abi_main () =
  let show l = String.concat " " (List.map (function InRegs (g, f) -> Printf.sprintf "R%d,%d" (int_of_nat g) (int_of_nat f)
                                                    | OnStack w -> Printf.sprintf "S%d" (int_of_nat w)) l) in
  (try while true do
    let line = String.trim (input_line stdin) in
    (match List.filter (fun s -> s <> "") (String.split_on_char ' ' line) with
     | "regs" :: size :: r ->
       let (ty, _) = parse_aty r in
       let (g, f) = count_struct_regs ty (z_of_int (int_of_string size)) in
       Printf.printf "%d %d\n" (int_of_nat g) (int_of_nat f)
     | "place" :: r ->
       let rec args = function
         | "I" :: r -> AInt :: args r | "F" :: r -> AFlt :: args r | "L" :: r -> ALdbl :: args r
         | "S" :: g :: f :: w :: r -> ASmall (nat_of_int (int_of_string g), nat_of_int (int_of_string f), nat_of_int (int_of_string w)) :: args r
         | "B" :: w :: r -> ABig (nat_of_int (int_of_string w)) :: args r
         | [] -> [] | _ -> failwith "bad arg list" in
       let a = args r in
       Printf.printf "%s | %s | %s\n" (show (psabi_place O O O a)) (show (caller_place gP_MAX fP_MAX O O O a)) (show (callee_place gP_MAX fP_MAX O O O a))
     | _ -> failwith ("bad line: " ^ line)); flush stdout
  done with End_of_file -> ())

(* ---------------- driver (C14) ---------------- *)
(* stdin: "<E|S|C|L> <has_o 0|1> <kinds: string over C A O> <index of the failing subprocess or -1>"
   stdout: "exit=<c> tmps=<created>/<unlinked> spawns=<p1,p2,...> written=<paths>" *)
let driver_main () =
  let path_s = function POut i -> Printf.sprintf "out%d" (int_of_nat i) | POpt -> "opt" | PAout -> "a.out" | PStdout -> "stdout"
    | PTmp n -> Printf.sprintf "tmp%d" (int_of_nat n) in
  let proc_s = function
    | Cc1 (i, _) -> Printf.sprintf "cc1:%d" (int_of_nat i)
    | As (Inl p, _) -> "as:" ^ path_s p | As (Inr i, _) -> Printf.sprintf "as:in%d" (int_of_nat i)
    | Ld _ -> "ld" in
  (try while true do
    let line = String.trim (input_line stdin) in
    (match List.filter (fun s -> s <> "") (String.split_on_char ' ' line) with
     | [m; o; ks; fail] ->
       let md = (match m with "E" -> ME | "S" -> MS | "C" -> MC | _ -> MLink) in
       let kinds = List.init (String.length ks) (fun i -> match ks.[i] with 'C' -> KC | 'A' -> KAsm | _ -> KObj) in
       let f = int_of_string fail in
       let orc k = int_of_nat k <> f in
       let (c, tr) = final (driver orc md (o = "1") kinds) in
       let spawns = List.filter_map (function ESpawn (p, ok) -> Some (proc_s p ^ (if ok then "+" else "-")) | _ -> None) tr in
       Printf.printf "exit=%d tmps=%d/%d spawns=%s written=%s\n" (int_of_nat c)
         (List.length (tmp_created tr)) (List.length (tmp_unlinked tr)) (String.concat "," spawns)
         (String.concat "," (List.map path_s (List.filter (function PTmp _ -> false | _ -> true) (written tr))))
     | _ -> failwith ("bad line: " ^ line)); flush stdout
  done with End_of_file -> ())

(* ---------------- lexer (C18 / C19) ---------------- *)
(* lex <file>: one token per line "kind at_bol has_space hex", or LEXERR *)
let lex_main file =
  let ic = open_in_bin file in
  let n = in_channel_length ic in
  let s = really_input_string ic n in close_in ic;
  let bytes = List.init n (fun i -> n_of_int (Char.code s.[i])) in
  (match tokenize punct_table bytes with
   | LexErr -> print_endline "LEXERR"
   | LexOk l -> List.iter (fun t ->
       let k = (match t.t_kind with LIdent -> 0 | LPunct -> 1 | LNum -> 5 | LStr -> 3 | LChr -> 4) in
       Printf.printf "%d %d %d %s\n" k (if t.t_bol then 1 else 0) (if t.t_space then 1 else 0) (hex_of_bytes t.t_text)) l)

(* lines <file>: per token "line phys pending hex" (C18), or LEXERR *)
let lines_main file =
  let ic = open_in_bin file in
  let n = in_channel_length ic in
  let s = really_input_string ic n in close_in ic;
  let bytes = List.init n (fun i -> n_of_int (Char.code s.[i])) in
  let rec nat_int = function O -> 0 | S m -> 1 + nat_int m in
  (match token_lines punct_table bytes with
   | None -> print_endline "LEXERR"
   | Some l -> List.iter (fun tp ->
       Printf.printf "%d %d %d %s\n" (nat_int tp.tp_line) (nat_int tp.tp_phys) (nat_int tp.tp_pending) (hex_of_bytes tp.tp_tok.t_text)) l)

(* macro <file>: tokens after macro expansion, one per line "has_space hex" (C09); or ERR / FUEL / UNSUP *)
let macro_main file =
  let ic = open_in_bin file in
  let n = in_channel_length ic in
  let s = really_input_string ic n in close_in ic;
  let bytes = List.init n (fun i -> n_of_int (Char.code s.[i])) in
  let rec nat_of i = if i = 0 then O else S (nat_of (i - 1)) in
  (match tokenize punct_table (phases12 (load bytes)) with
   | LexErr -> print_endline "LEXERR"
   | LexOk l ->
     (match pp2 punct_table (nat_of 20000) [] (of_lex l) with
      | MOk ts -> List.iter (fun t -> Printf.printf "%d %s\n" (if t.m_sp then 1 else 0) (hex_of_bytes t.m_txt)) ts
      | MErr -> print_endline "ERR" | MFuel -> print_endline "FUEL" | MUnsup -> print_endline "UNSUP"))

(* sdisc: stdin lines: a statement or expression in prefix form (C20)
     e ::= N c | V c | B c e e | C c e e | G c e | L c e | K f t e | X c e | A c e e | Q c0 c e e e | D c1 c2 e e | O c1 c2 e e | M c1 e e
         | F ret pad n (c st e)*        c ::= I | F | X     st, pad ::= 0 | 1
     s ::= SE c e | SI c0 e s s | SF s c0 e ci e s | SD s c0 e | SB n s* | SR c e | SN
   stdout: "<wt> <need> <final d> <final x | FAIL> | <op letters>" *)
let sdisc_main () =
  let cls = function "I" -> CI | "F" -> CF | "X" -> CX | s -> failwith ("class " ^ s) in
  let rec pe toks = match toks with
    | "N" :: c :: r -> (XNum (cls c), r) | "V" :: c :: r -> (XVar (cls c), r)
    | "B" :: c :: r -> let (a, r) = pe r in let (b, r) = pe r in (XBin (cls c, a, b), r)
    | "C" :: c :: r -> let (a, r) = pe r in let (b, r) = pe r in (XCmp (cls c, a, b), r)
    | "G" :: c :: r -> let (a, r) = pe r in (XNeg (cls c, a), r)
    | "L" :: c :: r -> let (a, r) = pe r in (XLNot (cls c, a), r)
    | "K" :: f :: t :: r -> let (a, r) = pe r in (XCast (cls f, cls t, a), r)
    | "X" :: c :: r -> let (a, r) = pe r in (XToVoid (cls c, a), r)
    | "A" :: c :: r -> let (a, r) = pe r in let (v, r) = pe r in (XAssign (cls c, a, v), r)
    | "Q" :: c0 :: c :: r -> let (x, r) = pe r in let (a, r) = pe r in let (b, r) = pe r in (XCond (cls c0, cls c, x, a, b), r)
    | "D" :: c1 :: c2 :: r -> let (a, r) = pe r in let (b, r) = pe r in (XLogAnd (cls c1, cls c2, a, b), r)
    | "O" :: c1 :: c2 :: r -> let (a, r) = pe r in let (b, r) = pe r in (XLogOr (cls c1, cls c2, a, b), r)
    | "M" :: c1 :: r -> let (a, r) = pe r in let (b, r) = pe r in (XComma (cls c1, a, b), r)
    | "F" :: ret :: pad :: n :: r ->
      let rec args k r = if k = 0 then ([], r) else
        (match r with c :: st :: r -> let (a, r) = pe r in let (l, r) = args (k - 1) r in (((cls c, st = "1"), a) :: l, r) | _ -> failwith "args") in
      let (l, r) = args (int_of_string n) r in (XCall (cls ret, pad = "1", l), r)
    | t :: _ -> failwith ("expr " ^ t) | [] -> failwith "eof" in
  let rec ps toks = match toks with
    | "SE" :: c :: r -> let (e, r) = pe r in (SExpr (cls c, e), r)
    | "SR" :: c :: r -> let (e, r) = pe r in (SReturn (cls c, e), r)
    | "SI" :: c0 :: r -> let (e, r) = pe r in let (a, r) = ps r in let (b, r) = ps r in (SIf (cls c0, e, a, b), r)
    | "SF" :: r -> let (i, r) = ps r in (match r with c0 :: r -> let (e, r) = pe r in (match r with ci :: r -> let (inc, r) = pe r in let (b, r) = ps r in (SFor (i, cls c0, e, cls ci, inc, b), r) | _ -> failwith "for") | _ -> failwith "for")
    | "SD" :: r -> let (b, r) = ps r in (match r with c0 :: r -> let (e, r) = pe r in (SDo (b, cls c0, e), r) | _ -> failwith "do")
    | "SB" :: n :: r -> let rec go k r = if k = 0 then ([], r) else let (s, r) = ps r in let (l, r) = go (k - 1) r in (s :: l, r) in
      let (l, r) = go (int_of_string n) r in (SBlock l, r)
    | "SN" :: r -> (SNop, r)
    | t :: _ -> failwith ("stmt " ^ t) | [] -> failwith "eof" in
  let rec z_int z = match z with Z0 -> 0 | Zpos p -> pos_int p | Zneg p -> - (pos_int p)
  and pos_int p = match p with XH -> 1 | XO q -> 2 * pos_int q | XI q -> 2 * pos_int q + 1 in
  let b = Buffer.create 256 in
  let rec flat c = match c with
    | KI o -> (match o with OPush -> Buffer.add_char b 'U' | OPop -> Buffer.add_char b 'O' | OPushF -> Buffer.add_char b 'u' | OPopF -> Buffer.add_char b 'o'
              | OSubRsp n -> Buffer.add_string b (Printf.sprintf "S%d" (z_int n)) | OAddRsp n -> Buffer.add_string b (Printf.sprintf "A%d" (z_int n))
              | OFPush -> Buffer.add_char b 'F' | OFPop -> Buffer.add_char b 'f' | OOther -> ())
    | KSeq (x, y) -> flat x; flat y | KSkip -> () | KBr (x, y) -> flat x; flat y | KLoop x -> flat x | KRet x -> flat x in
  (try while true do
    let line = input_line stdin in
    let toks = List.filter (fun x -> x <> "") (String.split_on_char ' ' (String.trim line)) in
    Buffer.clear b;
    (match toks with
     | t :: _ when String.length t = 2 && t.[0] = 'S' ->
       let (s, _) = ps toks in
       let code = gs s in flat code;
       let fin = (match srun code (Z0, Z0) with Some (d, x) -> Printf.sprintf "%d %d" (z_int d) (z_int x) | None -> "FAIL FAIL") in
       Printf.printf "%d %d %s | %s\n" (if wts s then 1 else 0) (z_int (sneed s)) fin (Buffer.contents b)
     | _ ->
       let (e, _) = pe toks in
       let code = gen e in flat code;
       let fin = (match srun code (Z0, Z0) with Some (d, x) -> Printf.sprintf "%d %d" (z_int d) (z_int x) | None -> "FAIL FAIL") in
       Printf.printf "%d %d %s | %s\n" (if wt e then 1 else 0) (z_int (need e)) fin (Buffer.contents b))
  done with End_of_file -> ())

(* switch: stdin lines "<w> <v> <default label | -> <b:e:label>*" (cases in chibicc's test order, raw source values); prints the label reached, 0 = past the switch (C03) *)
let switch_main () =
  let z_of_string s =
    let neg = String.length s > 0 && s.[0] = '-' in
    let body = if neg then String.sub s 1 (String.length s - 1) else s in
    (match n_of_string body with N0 -> Z0 | Npos p -> if neg then Zneg p else Zpos p) in
  let rec nat_of i = if i = 0 then O else S (nat_of (i - 1)) in
  let rec nat_int = function O -> 0 | S m -> 1 + nat_int m in
  (try while true do
    let line = input_line stdin in
    (match List.filter (fun x -> x <> "") (String.split_on_char ' ' (String.trim line)) with
     | w :: v :: d :: cs ->
       let wz = z_of_string w in
       let cases = List.map (fun c -> match String.split_on_char ':' c with
         | [b; e; l] -> { c_begin = stored wz (z_of_string b); c_end = stored wz (z_of_string e); c_label = nat_of (int_of_string l) }
         | _ -> failwith "case") cs in
       let dflt = if d = "-" then None else Some (nat_of (int_of_string d)) in
       print_endline (string_of_int (nat_int (dispatch wz (z_of_string v) cases dflt O)))
     | _ -> print_endline "?")
  done with End_of_file -> ())

(* lower: stdin lines "<oracle bits | -> <statement in prefix form>": M n | K | S a b | I k a b | F init (k|-) inc body | D body k | B | C
   prints "<emitted jump code> | <trace of the structured program on that oracle, or NONE>" (C03) *)
let lower_main () =
  let rec nat_of i = if i <= 0 then O else S (nat_of (i - 1)) in
  let rec nat_int = function O -> 0 | S m -> 1 + nat_int m in
  let rec parse = function
    | "M" :: n :: r -> (LMark (nat_of (int_of_string n)), r)
    | "K" :: r -> (LSkip, r)
    | "B" :: r -> (LBreak, r)
    | "C" :: r -> (LContinue, r)
    | "S" :: r -> let (a, r) = parse r in let (b, r) = parse r in (LSeq (a, b), r)
    | "I" :: k :: r -> let (a, r) = parse r in let (b, r) = parse r in (LIf (nat_of (int_of_string k), a, b), r)
    | "F" :: r -> let (i, r) = parse r in
        (match r with
         | k :: r -> let kk = if k = "-" then None else Some (nat_of (int_of_string k)) in
                     let (inc, r) = parse r in let (body, r) = parse r in (LFor (i, kk, inc, body), r)
         | [] -> failwith "for")
    | "D" :: r -> let (b, r) = parse r in (match r with k :: r -> (LDo (b, nat_of (int_of_string k)), r) | [] -> failwith "do")
    | _ -> failwith "stmt" in
  (try while true do
    let line = input_line stdin in
    (match List.filter (fun x -> x <> "") (String.split_on_char ' ' (String.trim line)) with
     | bits :: toks ->
       let (s, _) = parse toks in
       let o = if bits = "-" then [] else List.init (String.length bits) (fun i -> bits.[i] = '1') in
       let n = lsize s in
       let code = lgen s O n n in
       let show = function IMark n -> Printf.sprintf "M%d" (nat_int n) | ICondJf (k, t) -> Printf.sprintf "F%d:%d" (nat_int k) (nat_int t)
                         | ICondJt (k, t) -> Printf.sprintf "T%d:%d" (nat_int k) (nat_int t) | IJmp t -> Printf.sprintf "J%d" (nat_int t) in
       let tr = match lexec (nat_of 4000) s o with
         | Some ((t, _), ONormal) -> String.concat " " (List.map (fun x -> string_of_int (nat_int x)) t)
         | Some ((_, _), _) -> "STRAY"
         | None -> "NONE" in
       print_endline (String.concat " " (List.map show code) ^ " | " ^ tr)
     | _ -> print_endline "?")
  done with End_of_file -> ())

(* bf: stdin lines "bf <u> <v> <off> <w> <size> <sgn>" -> "<unit after store> <value read back>" ; "ea <base> <idx> <size>" -> address (C04) *)
let bf_main () =
  let z_of_string s =
    let neg = String.length s > 0 && s.[0] = '-' in
    let body = if neg then String.sub s 1 (String.length s - 1) else s in
    (match n_of_string body with N0 -> Z0 | Npos p -> if neg then Zneg p else Zpos p) in
  let rec pos_str p = (* decimal string of a positive via repeated division on OCaml strings is overkill: use float-free bignum by lists *)
    let rec to_bits p = match p with XH -> [1] | XO q -> 0 :: to_bits q | XI q -> 1 :: to_bits q in
    let bits = List.rev (to_bits p) in
    (* decimal digits little-endian *)
    let dbl_add ds b = let rec go ds c = match ds with [] -> if c = 0 then [] else [c] | d :: r -> let x = 2 * d + c in (x mod 10) :: go r (x / 10) in go ds b in
    let ds = List.fold_left (fun ds b -> dbl_add ds b) [] bits in
    String.concat "" (List.rev_map string_of_int (if ds = [] then [0] else ds)) in
  let z_str z = match z with Z0 -> "0" | Zpos p -> pos_str p | Zneg p -> "-" ^ pos_str p in
  (try while true do
    let line = input_line stdin in
    (match List.filter (fun x -> x <> "") (String.split_on_char ' ' (String.trim line)) with
     | ["bf"; u; v; off; w; size; sgn] ->
       let u = z_of_string u and v = z_of_string v and off = z_of_string off and w = z_of_string w and size = z_of_string size in
       let u' = unit_write size (bf_store u v off w) in
       let r = if sgn = "1" then bf_load_s u' off w else bf_load_u u' off w in
       print_endline (z_str u' ^ " " ^ z_str r)
     | ["ea"; b; i; sz] -> print_endline (z_str (elem_addr (z_of_string b) (z_of_string i) (z_of_string sz)))
     | _ -> print_endline "?")
  done with End_of_file -> ())

(* link: stdin lines "G (name:def:tent)*" -> names (with flags) scan_globals keeps; "F (name:root:ref,ref,..)*" -> live set (C15) *)
let link_main () =
  let rec nat_of i = if i = 0 then O else S (nat_of (i - 1)) in
  let rec nat_int = function O -> 0 | S m -> 1 + nat_int m in
  (try while true do
    let line = input_line stdin in
    (match List.filter (fun x -> x <> "") (String.split_on_char ' ' (String.trim line)) with
     | "G" :: items ->
       let gs = List.map (fun it -> match String.split_on_char ':' it with
         | [n; d; t] -> { g_name = nat_of (int_of_string n); g_def = (d = "1"); g_tent = (t = "1") } | _ -> failwith "G item") items in
       print_endline (String.concat " " (List.map (fun g -> Printf.sprintf "%d:%d:%d" (nat_int g.g_name) (if g.g_def then 1 else 0) (if g.g_tent then 1 else 0)) (scan_globals gs)))
     | "F" :: items ->
       let fs = List.map (fun it -> match String.split_on_char ':' it with
         | [n; r; refs] -> { f_name = nat_of (int_of_string n); f_root = (r = "1");
                             f_refs = List.map (fun x -> nat_of (int_of_string x)) (List.filter (fun x -> x <> "") (String.split_on_char ',' refs)) } | _ -> failwith "F item") items in
       print_endline (String.concat " " (List.map (fun n -> string_of_int (nat_int n)) (live_set fs)))
     | _ -> print_endline "?")
  done with End_of_file -> ())

(* cond: stdin lines of items I1 I0 E1 E0 L N T<k>; prints the selected payloads or ERR (C10) *)
let cond_main () =
  (try while true do
    let line = input_line stdin in
    let items = List.filter (fun x -> x <> "") (String.split_on_char ' ' (String.trim line)) in
    let ls = List.map (fun it ->
      match it with
      | "I1" -> If true | "I0" -> If false | "E1" -> Elif true | "E0" -> Elif false
      | "L" -> Else | "N" -> Endif
      | _ -> Text0 (int_of_string (String.sub it 1 (String.length it - 1)))) items in
    (match run ls with
     | None -> print_endline "ERR"
     | Some ps -> print_endline (String.concat " " (List.map string_of_int ps)))
  done with End_of_file -> ())

(* inc: stdin lines "<dq> <cur> <paths comma list> <exists bits, one per directory>" or
   "next <idx> <paths> <bits>"; prints the directory chosen or -1 (C10) *)
let inc_main () =
  let rec nat_of i = if i = 0 then O else S (nat_of (i - 1)) in
  (try while true do
    let line = input_line stdin in
    (match String.split_on_char ' ' (String.trim line) with
     | ["next"; idx; paths; bits] ->
       let ps = if paths = "" || paths = "-" then [] else List.map int_of_string (String.split_on_char ',' paths) in
       let ex d () = bits.[d] = '1' in
       (match resolve_next ex (nat_of (int_of_string idx)) ps () with Some d -> (print_endline (string_of_int d); flush stdout) | None -> (print_endline "-1"; flush stdout))
     | [dq; cur; paths; bits] ->
       let ps = if paths = "" || paths = "-" then [] else List.map int_of_string (String.split_on_char ',' paths) in
       let ex d () = bits.[d] = '1' in
       (match resolve ex (dq = "1") (int_of_string cur) ps () with Some d -> (print_endline (string_of_int d); flush stdout) | None -> (print_endline "-1"; flush stdout))
     | _ -> (print_endline "?"; flush stdout))
  done with End_of_file -> ())

(* the punctuator pairs that fuse when printed adjacent (from the proved sweep) *)
let fusing_main () =
  List.iter (fun (a, b) -> Printf.printf "%s %s\n" (hex_of_bytes a) (hex_of_bytes b)) fusing_pairs

(* ---------------- layout / declspec ---------------- *)
(* stdin: "S|U <packed 0|1> <align0> <size align bf named>*"  (bf = -1 for an ordinary member)
   stdout: "<size> <align> <off:bit>*" *)
let layout_main () =
  (try while true do
    let line = input_line stdin in
    match String.split_on_char ' ' (String.trim line) with
    | kind :: packed :: align0 :: rest ->
      let rec mems = function
        | sz :: al :: bf :: nm :: r ->
          { m_size = n_of_int (int_of_string sz); m_align = n_of_int (int_of_string al);
            m_bf = (if bf = "-1" then None else Some (n_of_int (int_of_string bf))); m_named = (nm = "1") } :: mems r
        | [] -> [] | _ -> failwith "bad member list" in
      let ms = mems rest in
      let l = if kind = "S" then struct_layout (packed = "1") (n_of_int (int_of_string align0)) ms
              else union_layout (packed = "1") (n_of_int (int_of_string align0)) ms in
      let bad = kind = "S" && not (no_bad (packed = "1") { ls_bits = N0; ls_align = n_of_int (int_of_string align0) } ms) in
      Printf.printf "%d %d %d%s\n" (int_of_n l.l_size) (int_of_n l.l_align) (if bad then 1 else 0)
        (String.concat "" (List.map (fun p -> Printf.sprintf " %d:%d" (int_of_n p.p_off) (int_of_n p.p_bit)) l.l_places));
      flush stdout
    | _ -> failwith ("bad line: " ^ line)
  done with End_of_file -> ())

let kw_name = function KVoid -> "void" | KBool -> "_Bool" | KChar -> "char" | KShort -> "short" | KInt -> "int"
  | KLong -> "long" | KFloat -> "float" | KDouble -> "double" | KSigned -> "signed" | KUnsigned -> "unsigned"
let bty_name = function BVoid -> "void" | BBool -> "bool" | BChar -> "char" | BUChar -> "uchar" | BShort -> "short"
  | BUShort -> "ushort" | BInt -> "int" | BUInt -> "uint" | BLong -> "long" | BULong -> "ulong"
  | BFloat -> "float" | BDouble -> "double" | BLDouble -> "ldouble"
(* the 6.7.2p2 multisets of the Coq spec with their type, and what the regenerated model answers *)
let declspec_main () =
  List.iter (fun (m, t) ->
    Printf.printf "%s = %s\n" (String.concat " " (List.map kw_name m)) (bty_name t)) c11_type_specifiers
(* stdin: keyword sequences; stdout: model verdict *)
let declspec_run_main () =
  let kw_of = function "void" -> KVoid | "_Bool" -> KBool | "char" -> KChar | "short" -> KShort | "int" -> KInt
    | "long" -> KLong | "float" -> KFloat | "double" -> KDouble | "signed" -> KSigned | "unsigned" -> KUnsigned
    | s -> failwith ("bad kw " ^ s) in
  (try while true do
    let line = String.trim (input_line stdin) in
    let ks = List.filter (fun s -> s <> "") (String.split_on_char ' ' line) in
    (match declspec kw_op ds_table (List.map (fun k -> TKw (kw_of k)) ks) with
     | Some t -> print_endline (bty_name t) | None -> print_endline "invalid")
  done with End_of_file -> ())

let () =
  match Array.to_list Sys.argv with
  | [_; "cexpr"] -> cexpr_main ()
  | [_; "compile"] -> compile_main ()
  | [_; "codegen"] -> codegen_main ()
  | [_; "abi"] -> abi_main ()
  | [_; "driver"] -> driver_main ()
  | [_; "lex"; f] -> lex_main f
  | [_; "lines"; f] -> lines_main f
  | [_; "macro"; f] -> macro_main f
  | [_; "cond"] -> cond_main ()
  | [_; "link"] -> link_main ()
  | [_; "bf"] -> bf_main ()
  | [_; "switch"] -> switch_main ()
  | [_; "lower"] -> lower_main ()
  | [_; "sdisc"] -> sdisc_main ()
  | [_; "inc"] -> inc_main ()
  | [_; "fusing"] -> fusing_main ()
  | [_; "layout"] -> layout_main ()
  | [_; "declspec-spec"] -> declspec_main ()
  | [_; "declspec-run"] -> declspec_run_main ()
  | [_; "hashmap"] -> hashmap_main ()
  | [_; "utf"; lo; hi] -> utf_main (int_of_string lo) (int_of_string hi)
  | [_; "ident"; lo; hi] -> ident_main (int_of_string lo) (int_of_string hi)
  | [_; "identspec"; lo; hi] -> identspec_main (int_of_string lo) (int_of_string hi)
  | [_; "lit"] -> lit_main ()
  | [_; "utf16"] -> utf16_main ()
  | _ -> prerr_endline "usage: modelrun <area>"; exit 2
